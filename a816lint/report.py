"""Obligation bookkeeping, VIOLATION / KNOWN-FINDING / ANALYSIS-ERROR lines and evidence files."""
from __future__ import annotations

import json
import os
import time
from dataclasses import dataclass, field
from typing import Any

from .core import AnalysisError, Repo

VERIF = os.path.dirname(os.path.dirname(os.path.abspath(__file__)))


@dataclass
class Obligation:
    rule: str
    construct: str
    ok: bool
    detail: str = ""

    @property
    def key(self) -> str:
        return f"{self.rule}|{self.construct}"


# Measured and rejected: also treating a function as "rewritten" when >= 12 of its statements / tests differ from the confirmed version removed 5
# more false alarms of neutral round 5 but turned 12 more seeded defects into "undecided"; the distance is still computed (normalize.py) and shown
# in the evidence, the guard itself is off.
REWRITE_DISTANCE = 10 ** 6


class Ctx:
    def __init__(self, repo: Repo, prop: str, tier: str = "quick") -> None:
        self.repo = repo
        self.prop = prop
        self.tier = tier
        self.obligations: list[Obligation] = []
        self.errors: list[str] = []
        self.counts: dict[str, int] = {}
        self.samples: list[Any] = []
        self.notes: list[str] = []
        self.current_rule = "?"

    # -- recording
    def check(self, cond: bool, construct: str, detail: str = "", rule: str | None = None, fact: bool = False) -> bool:
        """fact=True: the failure is a construct the rule extracted and that contradicts it (not a pattern it failed to find): reported even in a
        function rewritten with unfamiliar syntax"""
        if not cond and not fact:
            why = self._novel(construct, rule or self.current_rule)
            if why:
                # the function was rewritten with constructs its confirmed version does not use: what the rule does not find there is not decided
                msg = f"{rule or self.current_rule}: {construct}: not decided - {why}"
                if msg not in self.errors:
                    self.errors.append(msg)
                return False
        self.obligations.append(Obligation(rule or self.current_rule, construct, bool(cond), detail))
        return bool(cond)

    def _novel(self, construct: str, rule: str) -> str | None:
        novel = getattr(self.repo, "novel_syntax", None) or {}
        dist = getattr(self.repo, "rewrite_distance", None) or {}
        if (not novel and not dist) or rule.split(".")[-1] in ("RM", "RU", "RB"):
            return None  # the shared effect / def-use rules report facts they extracted, not patterns they missed
        import re as _re

        words = set(_re.findall(r"[A-Za-z_][A-Za-z_0-9]*(?:\.[A-Za-z_][A-Za-z_0-9]*)?", construct))

        def named(q: str) -> bool:
            bare = q.split(".")[-1]
            return q in words or (bare in words and not bare.startswith("__")) or any(w.endswith("." + bare) for w in words)

        for q, kinds in novel.items():
            if named(q):
                return f"`{q}` now uses {', '.join(sorted(kinds))}, which its confirmed version does not; the rule's extractor does not model that spelling"
        for q, d in dist.items():
            if d >= REWRITE_DISTANCE and named(q):
                return f"`{q}` has been rewritten ({d} of its statements and tests differ from the confirmed version); the rule's extractor was written against that version"
        return None

    def ok(self, construct: str, detail: str = "", rule: str | None = None) -> None:
        self.check(True, construct, detail, rule)

    def fail(self, construct: str, detail: str, rule: str | None = None, fact: bool = False) -> None:
        self.check(False, construct, detail, rule, fact)

    def count(self, key: str, n: int = 1) -> None:
        self.counts[key] = self.counts.get(key, 0) + n

    def floor(self, key: str, minimum: int) -> None:
        got = self.counts.get(key, 0)
        if got < minimum:
            raise AnalysisError(
                f"{self.current_rule}: analysed {got} {key}, fewer than the {minimum} confirmed by hand; "
                "the rule would pass vacuously"
            )

    def sample(self, s: Any) -> None:
        if len(self.samples) < 40:
            self.samples.append(s)

    def note(self, s: str) -> None:
        self.notes.append(s)

    @property
    def failures(self) -> list[Obligation]:
        return [o for o in self.obligations if not o.ok]


def load_known_findings() -> dict[str, Any]:
    p = os.path.join(VERIF, "known_findings.json")
    if not os.path.exists(p):
        return {"findings": [], "fixed": []}
    with open(p) as f:
        return json.load(f)


EVIDENCE_DIR: str | None = None


def write_evidence(prop: str, tier: str, level: str, ctx: Ctx | None, wall: float, violations: int,
                   explanation: str, assumptions: list[str], trusted: list[str], extra: dict[str, Any] | None = None,
                   seed: int = 0) -> str:
    obligations = len(ctx.obligations) if ctx else 0
    discharged = sum(1 for o in ctx.obligations if o.ok) if ctx else 0
    samples: list[Any] = []
    if ctx:
        seen_rules: dict[str, int] = {}
        for o in ctx.obligations:
            if seen_rules.get(o.rule, 0) < 3:
                seen_rules[o.rule] = seen_rules.get(o.rule, 0) + 1
                samples.append({"rule": o.rule, "construct": o.construct, "ok": o.ok, "detail": o.detail[:240]})
        samples.extend(ctx.samples)
    distinct = len({o.key for o in ctx.obligations}) if ctx else 0
    per_rule: dict[str, dict[str, int]] = {}
    if ctx:
        for o in ctx.obligations:
            d = per_rule.setdefault(o.rule, {"obligations": 0, "discharged": 0})
            d["obligations"] += 1
            d["discharged"] += int(o.ok)
    coverage: dict[str, Any] = {
        "explanation": explanation,
        "obligations": obligations,
        "discharged": discharged,
        "evaluations": max(obligations, 1),
        "distinct_nontrivial": max(distinct, 0),
        "rule": "one obligation per (rule, construct) enumerated from /repo's current source; "
                "distinct = distinct (rule, construct) keys; an obligation is non-trivial because each is a "
                "separately extracted fact compared with the rule's oracle",
        "samples": samples or [{"note": "no obligations recorded"}],
        "checker_cmd": f"./check {prop} --tier {tier}",
        "trusted_base": trusted,
        "exhaustive": True,
        "per_rule": per_rule,
        "analysed": ctx.counts if ctx else {},
        "files": ctx.repo.digests() if ctx else {},
        "notes": ctx.notes if ctx else [],
        "analysis_errors": ctx.errors if ctx else [],
    }
    if extra:
        coverage.update(extra)
    ev = {
        "property_id": prop,
        "tier": tier,
        "seed": seed,
        "level": level,
        "coverage": coverage,
        "assumptions": assumptions,
        "wall_s": round(wall, 3),
        "violations": violations,
    }
    # a run against a scratch copy (--repo DIR: seeds, neutral variants, sweeps) must not replace the record of /repo itself
    ev_dir = EVIDENCE_DIR or os.path.join(VERIF, "evidence")
    os.makedirs(ev_dir, exist_ok=True)
    path = os.path.join(ev_dir, f"{prop}.json")
    tmp = f"{path}.{os.getpid()}.tmp"
    with open(tmp, "w") as f:
        json.dump(ev, f, indent=1, sort_keys=False, default=str)
        f.write("\n")
    os.replace(tmp, path)
    return path
