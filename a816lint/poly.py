"""Polynomial normal form of integer expressions: + - * expand; bit operations become canonical opaque atoms.

Two expressions with the same normal form compute the same integer function (ring identities and commutativity of
& | are respected).  Different normal forms over the same atoms mean the formulas differ as polynomials.
"""
from __future__ import annotations

import ast
from typing import Dict, Tuple

from .core import AnalysisError, unparse
from .match import const_int

Poly = Dict[Tuple[str, ...], int]


def _add(a: Poly, b: Poly, sign: int = 1) -> Poly:
    out = dict(a)
    for k, v in b.items():
        out[k] = out.get(k, 0) + sign * v
        if out[k] == 0:
            del out[k]
    return out


def _mul(a: Poly, b: Poly) -> Poly:
    out: Poly = {}
    for ka, va in a.items():
        for kb, vb in b.items():
            k = tuple(sorted(ka + kb))
            out[k] = out.get(k, 0) + va * vb
            if out[k] == 0:
                del out[k]
    return out


def show(p: Poly) -> str:
    if not p:
        return "0"
    parts = []
    for k in sorted(p):
        c = p[k]
        term = "*".join(k) if k else ""
        if term and c == 1:
            parts.append(term)
        elif term:
            parts.append(f"{c}*{term}")
        else:
            parts.append(str(c))
    return " + ".join(parts)


def atoms(p: Poly) -> set[str]:
    return {a for k in p for a in k}


def poly(node: ast.AST, env: dict[str, ast.AST] | None = None, depth: int = 10) -> Poly:
    env = env or {}
    c = const_int(node)
    if c is not None:
        return {(): c} if c else {}
    if isinstance(node, ast.Name):
        if node.id in env and depth > 0:
            return poly(env[node.id], env, depth - 1)
        return {(node.id,): 1}
    if isinstance(node, (ast.Attribute, ast.Subscript)):
        return {(unparse(node),): 1}
    if isinstance(node, ast.UnaryOp):
        if isinstance(node.op, ast.USub):
            return _mul({(): -1}, poly(node.operand, env, depth))
        if isinstance(node.op, ast.UAdd):
            return poly(node.operand, env, depth)
        if isinstance(node.op, ast.Invert):
            return {(f"inv({show(poly(node.operand, env, depth))})",): 1}
    if isinstance(node, ast.BinOp):
        op = node.op
        if isinstance(op, ast.Add):
            return _add(poly(node.left, env, depth), poly(node.right, env, depth))
        if isinstance(op, ast.Sub):
            return _add(poly(node.left, env, depth), poly(node.right, env, depth), -1)
        if isinstance(op, ast.Mult):
            return _mul(poly(node.left, env, depth), poly(node.right, env, depth))
        if isinstance(op, ast.LShift):
            s = const_int(node.right)
            if s is not None and 0 <= s < 64:
                return _mul(poly(node.left, env, depth), {(): 1 << s})
            return {(f"shl({show(poly(node.left, env, depth))},{show(poly(node.right, env, depth))})",): 1}
        if isinstance(op, (ast.BitAnd, ast.BitOr, ast.BitXor)):
            name = {ast.BitAnd: "and", ast.BitOr: "or", ast.BitXor: "xor"}[type(op)]
            ops: list[str] = []
            consts: list[int] = []

            def flat(n: ast.AST) -> None:
                if isinstance(n, ast.BinOp) and type(n.op) is type(op):
                    flat(n.left)
                    flat(n.right)
                    return
                c2 = const_int(n)
                if c2 is None and isinstance(n, ast.UnaryOp) and isinstance(n.op, ast.Invert):
                    inner = const_int(n.operand)
                    c2 = ~inner if inner is not None else None
                if c2 is not None:
                    consts.append(c2)
                else:
                    ops.append(show(poly(n, env, depth)))

            flat(node)
            if consts:
                folded = consts[0]
                for c3 in consts[1:]:
                    folded = folded & c3 if name == "and" else folded | c3 if name == "or" else folded ^ c3
                # x & (2**k - 1) is x mod 2**k
                if name == "and" and len(ops) == 1 and folded > 0 and (folded & (folded + 1)) == 0:
                    return {(f"mod({ops[0]},{folded + 1})",): 1}
                ops.append(str(folded))
            return {(f"{name}{{{','.join(sorted(ops))}}}",): 1}
        if isinstance(op, ast.RShift):
            sft = const_int(node.right)
            if sft is not None and 0 <= sft < 64:
                # x >> k is x // 2**k for integers
                return {(f"fdiv({show(poly(node.left, env, depth))},{1 << sft})",): 1}
        fn = {ast.RShift: "shr", ast.FloorDiv: "fdiv", ast.Mod: "mod", ast.Div: "div", ast.Pow: "pow"}.get(type(op))
        if fn:
            return {(f"{fn}({show(poly(node.left, env, depth))},{show(poly(node.right, env, depth))})",): 1}
    if isinstance(node, ast.Call):
        args = ",".join(show(poly(a, env, depth)) for a in node.args)
        return {(f"{unparse(node.func)}({args})",): 1}
    raise AnalysisError(f"expression not modelled by the polynomial normal form: {unparse(node)[:80]}")


def poly_of_source(src: str) -> Poly:
    return poly(ast.parse(src, mode="eval").body)
