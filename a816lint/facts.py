"""Branch-structure independent facts about a function: what it returns / assigns under which conditions.

`if c: return a else: return b`, `if not c: return b; return a` and `x = a if ... ; return x` variants all produce the same
set {(a, {(c, True)}), (b, {(c, False)})}."""
from __future__ import annotations

import ast

from .cfg import CFG
from .core import AnalysisError, FunctionInfo, unparse, walk_no_nested
from .match import canon, canon_test, inline, last_assignments

Fact = tuple[str, frozenset]


def _conds(g: CFG, nid: int, fn: ast.FunctionDef, keep: tuple[str, ...] = ()) -> frozenset:
    return frozenset(g.path_conditions(nid, fn, keep))


def return_facts(fi: FunctionInfo, keep: tuple[str, ...] = ()) -> set[Fact]:
    """{(canonical returned expression, conditions under which that return is reached)}; a returned local that is assigned in
    several branches is expanded to its assignments; a conditional expression is split."""
    fn = fi.node
    g = CFG(fn)
    out: set[Fact] = set()
    rets = [n for n in walk_no_nested(fn, include_root=False) if isinstance(n, ast.Return)]
    for r in rets:
        if r.value is None:
            out.add(("None", _conds(g, g.node_of(r), fn, keep)))
            continue
        v = r.value
        if isinstance(v, ast.Name):
            assigns = [n for n in walk_no_nested(fn, include_root=False) if isinstance(n, (ast.Assign, ast.AnnAssign)) and getattr(n, "value", None) is not None
                       and any(isinstance(t, ast.Name) and t.id == v.id for t in (n.targets if isinstance(n, ast.Assign) else [n.target]))]
            if len(assigns) > 1:
                for a in assigns:
                    for text, extra in _split_ifexp(fn, a.value, keep):
                        out.add((text, frozenset(_conds(g, g.node_of(a), fn, keep) | extra)))
                continue
        for text, extra in _split_ifexp(fn, v, keep):
            out.add((text, frozenset(_conds(g, g.node_of(r), fn, keep) | extra)))
    return out


def _split_ifexp(fn: ast.FunctionDef, v: ast.AST, keep: tuple[str, ...]) -> list[tuple[str, set]]:
    v2 = inline(v, {k: x for k, x in last_assignments(fn).items() if k not in keep})
    if isinstance(v2, ast.IfExp):
        t, pol = canon_test(v2.test)
        yes = {(t, pol)}
        no = {(t, not pol)}
        if isinstance(v2.test, ast.BoolOp) and isinstance(v2.test.op, ast.And):
            yes = {canon_test(p) for p in v2.test.values}
        if isinstance(v2.test, ast.BoolOp) and isinstance(v2.test.op, ast.Or):
            no = {(a, not b) for a, b in (canon_test(p) for p in v2.test.values)}
        return [(unparse(v2.body), yes), (unparse(v2.orelse), no)]
    return [(unparse(v2), set())]


def assign_facts(fi: FunctionInfo, target: str, keep: tuple[str, ...] = ()) -> set[Fact]:
    """{(canonical assigned value, conditions)} for every assignment to `target` (an attribute or name, as unparsed)."""
    fn = fi.node
    g = CFG(fn)
    out: set[Fact] = set()
    for n in walk_no_nested(fn, include_root=False):
        if isinstance(n, (ast.Assign, ast.AnnAssign)) and getattr(n, "value", None) is not None:
            tl = n.targets if isinstance(n, ast.Assign) else [n.target]
            if any(unparse(t) == target for t in tl):
                v = n.value
                if isinstance(v, ast.Name):
                    # a local that several branches bind (`t = a` / `t = b`, then `target = t`): its bindings, each under its own conditions
                    binds = [a for a in walk_no_nested(fn, include_root=False) if isinstance(a, (ast.Assign, ast.AnnAssign)) and getattr(a, "value", None) is not None
                             and any(isinstance(t, ast.Name) and t.id == v.id for t in (a.targets if isinstance(a, ast.Assign) else [a.target]))]
                    if len(binds) > 1:
                        for a in binds:
                            for text, extra in _split_ifexp(fn, a.value, keep + (target,)):  # type: ignore[arg-type]
                                out.add((text, frozenset(_conds(g, g.node_of(a), fn, keep) | _conds(g, g.node_of(n), fn, keep) | extra)))
                        continue
                for text, extra in _split_ifexp(fn, n.value, keep + (target,)):  # type: ignore[arg-type]
                    out.add((text, frozenset(_conds(g, g.node_of(n), fn, keep) | extra)))
    return out


def restrict(facts: set[Fact], vocabulary: set[str]) -> set[Fact]:
    """keep only conditions whose text is in `vocabulary` (other guards, e.g. argument type checks, are irrelevant to the rule)"""
    return {(v, frozenset(c for c in conds if c[0] in vocabulary)) for v, conds in facts}


def show(facts: set[Fact]) -> str:
    return "; ".join(f"{v} when {sorted((t if p else 'not ' + t) for t, p in c) or ['always']}" for v, c in sorted(facts, key=lambda x: x[0]))


def possible_values(facts: set[Fact], atoms: list[str]) -> dict[tuple[bool, ...], set[str]]:
    """Propositional abstraction: for every truth assignment of `atoms` (condition sub-expressions, by text), the set of values
    whose conditions all hold.  Condition texts must be boolean combinations (and / or / not / in-negation) of the atoms."""
    import itertools

    ev = eval_test

    out: dict[tuple[bool, ...], set[str]] = {}
    for combo in itertools.product([True, False], repeat=len(atoms)):
        env = dict(zip(atoms, combo))
        vals = set()
        for v, conds in facts:
            if all(ev(ast.parse(t, mode="eval").body, env) == pol for t, pol in conds):
                vals.add(v)
        out[combo] = vals
    return out


def eval_test(n: ast.AST, env: dict[str, bool]) -> bool:
    """truth value of a test that is a boolean combination of the atoms in env (texts; negated comparison operators are flipped)"""
    t = unparse(n)
    if t in env:
        return env[t]
    # an object without __bool__/__len__ is true exactly when it is not None (C08 checks that for Scope): both spellings are one atom
    if isinstance(n, ast.Compare) and len(n.ops) == 1 and isinstance(n.ops[0], ast.Is) and isinstance(n.comparators[0], ast.Constant) \
            and n.comparators[0].value is None and unparse(n.left) in env:
        return not env[unparse(n.left)]
    if f"{t} is None" in env:
        return not env[f"{t} is None"]
    if isinstance(n, ast.BoolOp):
        vals = [eval_test(v, env) for v in n.values]
        return all(vals) if isinstance(n.op, ast.And) else any(vals)
    if isinstance(n, ast.UnaryOp) and isinstance(n.op, ast.Not):
        return not eval_test(n.operand, env)
    if isinstance(n, ast.Compare) and len(n.ops) == 1 and isinstance(n.ops[0], (ast.NotIn, ast.IsNot, ast.NotEq)):
        flip = {ast.NotIn: ast.In, ast.IsNot: ast.Is, ast.NotEq: ast.Eq}[type(n.ops[0])]
        return not eval_test(ast.Compare(n.left, [flip()], n.comparators), env)
    if isinstance(n, ast.Compare) and len(n.ops) == 1 and isinstance(n.ops[0], ast.Eq):
        sw = unparse(ast.Compare(n.comparators[0], [ast.Eq()], [n.left]))
        if sw in env:
            return env[sw]
    raise AnalysisError(f"condition `{t}` is not a boolean combination of {sorted(env)}")


def leave_under(fn: ast.FunctionDef, env: dict[str, bool], inline_locals: bool = True) -> tuple[str, ast.stmt | None]:
    """('raise' | 'return', the statement that leaves): how a loop-free function leaves when its tests (boolean combinations of the atoms in
    env) have the given truth values.  Statements other than tests are assumed to complete normally.  AnalysisError when a test is not
    expressible.  Unlike path conditions (tests that dominate a statement), this follows ONE path per truth assignment, so a statement
    reached through several branches (a return after nested ifs) is handled exactly."""
    from .cfg import ENTRY, EXIT, RAISE

    g = CFG(fn)
    la = last_assignments(fn) if inline_locals else {}
    n, steps, last = ENTRY, 0, None
    while True:
        steps += 1
        if steps > 500:
            raise AnalysisError(f"{fn.name}: loop while evaluating the outcome")
        if n == EXIT:
            return "return", last if isinstance(last, ast.Return) else None
        if n == RAISE:
            return "raise", last
        node = g.nodes[n]
        if node.kind == "stmt" and isinstance(node.stmt, ast.stmt):
            last = node.stmt
        if isinstance(node.stmt, ast.Raise) and node.kind == "stmt":
            outs = [m for m, lab in g.succ[n] if lab == "exc"]
            if outs == [RAISE]:
                return "raise", node.stmt
            raise AnalysisError(f"{fn.name}: raise inside try not modelled for outcome evaluation")
        if node.kind == "test":
            val = eval_test(inline(node.ast, la) if la else node.ast, env)
            outs = [m for m, lab in g.succ[n] if lab == ("T" if val else "F")]
        else:
            outs = [m for m, lab in g.succ[n] if lab != "exc"]
        if len(outs) != 1:
            raise AnalysisError(f"{fn.name}: {len(outs)} successors at `{node.text()[:40]}` while evaluating the outcome")
        n = outs[0]


def outcome_under(fn: ast.FunctionDef, env: dict[str, bool], inline_locals: bool = True) -> str:
    return leave_under(fn, env, inline_locals)[0]


def value_table(fi: FunctionInfo, atoms: list[str], keep: tuple[str, ...] = ()) -> dict[tuple[bool, ...], set[str]]:
    """like possible_values(return_facts(fi), atoms), but by following the one path each truth assignment selects: the canonical text of the
    returned expression ('<raise>' when the path raises)"""
    import itertools

    out: dict[tuple[bool, ...], set[str]] = {}
    for combo in itertools.product([True, False], repeat=len(atoms)):
        kind, st = leave_under(fi.node, dict(zip(atoms, combo)))
        if kind == "raise":
            out[combo] = {"<raise>"}
        else:
            out[combo] = {canon(fi.node, st.value, keep) if isinstance(st, ast.Return) and st.value is not None else "None"}
    return out


def has_cond(conds, atom: str, value: bool) -> bool:
    """(atom, value) is among the path conditions, in either spelling of an object test (`x` true  ==  `x is None` false)"""
    if (atom, value) in conds:
        return True
    if atom.endswith(" is None"):
        return (atom[: -len(" is None")], not value) in conds
    return (f"{atom} is None", not value) in conds
