"""Run one property's rules against a source tree and report."""
from __future__ import annotations

import importlib
import json
import os
import time
import traceback
from typing import Any

from .core import AnalysisError, Repo
from .report import VERIF, Ctx, load_known_findings, write_evidence

_REPOS: dict[str, Repo] = {}
ALL_PROPS = [f"C{n:02d}" for n in range(1, 20)]


def rule_module(prop: str):
    return importlib.import_module(f"a816lint.rules.{prop.lower()}")


def analyse(prop: str, root: str, tier: str = "quick") -> Ctx:
    """Run the rules; AnalysisErrors are collected in ctx.errors (never raised)."""
    repo = _REPOS.get(root)
    if repo is None:
        repo = Repo(root)
        _REPOS[root] = repo  # one parse / call graph per source tree and process (`./check all`)
    ctx = Ctx(repo, prop, tier)
    mod = rule_module(prop)
    for rule in mod.RULES:
        rid = rule.__name__.upper().split("_")[0]
        ctx.current_rule = f"{prop}.{rid}"
        try:
            rule(ctx)
        except AnalysisError as e:
            ctx.errors.append(f"{ctx.current_rule}: {e}")
        except RecursionError as e:
            ctx.errors.append(f"{ctx.current_rule}: recursion limit in analysis")
        except Exception as e:  # noqa: BLE001 - an internal bug must not look like a violation
            tb = traceback.format_exc().strip().splitlines()
            ctx.errors.append(f"{ctx.current_rule}: internal error {type(e).__name__}: {e} [{tb[-3].strip() if len(tb) > 2 else ''}]")
    return ctx


def run_check(prop: str, root: str, tier: str, selftest: bool = False) -> int:
    t0 = time.time()
    from . import report as _report

    if os.path.realpath(root) != os.path.realpath(os.environ.get("A816_REPO", "/repo")):
        _report.EVIDENCE_DIR = os.environ.get("A816_EVIDENCE_DIR") or os.path.join(os.path.realpath(root), ".verif-evidence")
    mod = rule_module(prop)
    level = getattr(mod, "LEVEL", "other")
    seed = int(os.environ.get("VERIF_SEED", "0") or 0)
    try:
        ctx = analyse(prop, root, tier)
    except AnalysisError as e:
        print(f"ANALYSIS-ERROR property={prop} {e}")
        write_evidence(prop, tier, "other", None, time.time() - t0, 0,
                       f"analysis could not start: {e}", [], [], seed=seed)
        return 2

    known = load_known_findings()
    known_keys = {(k["property"], k["rule"], k["construct"]): k for k in known.get("findings", [])}
    violations = []
    known_hits = []
    for o in ctx.failures:
        k = (prop, o.rule, o.construct)
        if k in known_keys:
            known_hits.append((o, known_keys[k]))
        else:
            violations.append(o)
    for o, k in known_hits:
        print(f"KNOWN-FINDING: property={prop} {o.rule} {o.construct}: {k.get('what', o.detail)}")

    extra: dict[str, Any] = {}
    st_rc = 0
    if selftest and tier == "thorough":
        from . import selftest as st
        res = st.run_selftest(prop, root)
        extra["selftest"] = res
        if res["missed"] or res["false_alarms"]:
            st_rc = 2
            for m in res["missed"]:
                print(f"ANALYSIS-ERROR property={prop} self-test: mutant not detected: {m}")
            for m in res["false_alarms"]:
                print(f"ANALYSIS-ERROR property={prop} self-test: neutral twin raised a report: {m}")

    os.makedirs(os.path.join(VERIF, "replays"), exist_ok=True)
    for i, o in enumerate(violations):
        rp = os.path.join(VERIF, "replays", f"{prop}-{i}.json")
        with open(rp, "w") as f:
            json.dump({"property": prop, "rule": o.rule, "construct": o.construct, "detail": o.detail,
                       "root": root, "replay_cmd": f"./check {prop} --replay {rp}"}, f, indent=1)
        print(f"{o.rule} {o.construct}: {o.detail}")
        print(f"VIOLATION property={prop} replay={rp}")
    for e in ctx.errors:
        print(f"ANALYSIS-ERROR property={prop} {e}")

    write_evidence(
        prop, tier, level if not (ctx.errors or ctx.failures) else "other", ctx, time.time() - t0, len(violations),
        getattr(mod, "EXPLANATION", ""), getattr(mod, "ASSUMPTIONS", []), getattr(mod, "TRUSTED", DEFAULT_TRUSTED),
        extra=extra, seed=seed,
    )
    n_ob = len(ctx.obligations)
    n_ok = n_ob - len(ctx.failures)
    print(f"{prop} tier={tier} obligations={n_ob} discharged={n_ok} violations={len(violations)} "
          f"known={len(known_hits)} analysis_errors={len(ctx.errors)} wall={time.time() - t0:.2f}s")
    if violations:
        return 1
    if ctx.errors or st_rc:
        return 2
    return 0


def run_replay(prop: str, path: str, root: str) -> int:
    with open(path) as f:
        rec = json.load(f)
    ctx = analyse(prop, root)
    for o in ctx.failures:
        if o.rule == rec["rule"] and o.construct == rec["construct"]:
            print(f"{o.rule} {o.construct}: {o.detail}")
            print(f"VIOLATION property={prop} replay={path}")
            return 1
    print(f"replay: {rec['rule']} {rec['construct']} no longer fails on {root}")
    return 0


DEFAULT_TRUSTED = ["CPython ast / struct.calcsize", "a816lint engine (/verif/a816lint)", "reference data in /verif/refdata"]
