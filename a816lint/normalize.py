"""Normalisation applied by the loader before any rule runs.

The census (refdata/census.json) lists the functions and module-level names that existed at the verified commit.  Anything a
later edit *adds* is folded back so that rules keep seeing the mechanism's own statements:

* a new helper function / private method is inlined into its callers (expression helpers, statement helpers, helpers whose
  result is assigned or returned; early-return helpers are turned into if/else first).  A helper all of whose call sites
  were inlined is dropped from the function index;
* a new module-level constant bound once to a literal (or to int.from_bytes(<bytes literal>, "big"|"little")) is replaced by
  its value where it is read.

Nothing is executed; the transformation is purely syntactic and is reported in the evidence (`normalization`)."""
from __future__ import annotations

import ast
import copy
import json
import os
from typing import Any

from .core import ClassInfo, FunctionInfo, ModuleInfo, Repo, dotted, unparse, walk_no_nested

HERE = os.path.dirname(os.path.dirname(os.path.abspath(__file__)))
_COUNTER = [0]


def _load_census() -> dict[str, Any]:
    p = os.path.join(HERE, "refdata", "census.json")
    if not os.path.exists(p):
        return {"modules": {}}
    with open(p) as f:
        return json.load(f)


# --------------------------------------------------------------------------- constants
def _const_value(node: ast.AST) -> ast.AST | None:
    """literal AST for a module-level constant, or None"""
    if isinstance(node, ast.Constant):
        return node
    # only immutable values are propagated: a module-level list/dict/set is shared mutable state and must stay visible
    if isinstance(node, ast.Tuple) and all(isinstance(e, ast.Constant) for e in node.elts):
        return node
    if isinstance(node, ast.UnaryOp) and isinstance(node.operand, ast.Constant):
        return node
    if isinstance(node, ast.Call) and dotted(node.func) == "int.from_bytes" and len(node.args) == 2 and isinstance(node.args[0], ast.Constant) \
            and isinstance(node.args[0].value, bytes) and isinstance(node.args[1], ast.Constant) and node.args[1].value in ("big", "little"):
        return ast.Constant(int.from_bytes(node.args[0].value, node.args[1].value))
    if isinstance(node, ast.Call) and dotted(node.func) in ("frozenset", "tuple") and len(node.args) == 1 and isinstance(node.args[0], (ast.Tuple, ast.List, ast.Set)) \
            and all(isinstance(e, ast.Constant) for e in node.args[0].elts):
        return ast.Tuple(list(node.args[0].elts), ast.Load())
    if isinstance(node, ast.BinOp):
        from .match import const_int
        v = const_int(node)
        if v is not None:
            return ast.Constant(v)
    return None


class _ConstProp(ast.NodeTransformer):
    def __init__(self, consts: dict[str, ast.AST]) -> None:
        self.consts = consts
        self.hits = 0

    def visit_Name(self, node: ast.Name) -> ast.AST:
        if isinstance(node.ctx, ast.Load) and node.id in self.consts:
            self.hits += 1
            return ast.copy_location(copy.deepcopy(self.consts[node.id]), node)
        return node


class _SearchLoopUnroller(ast.NodeTransformer):
    """`for X in (c1, ..., cn): if T(X): S(X); break` [else: E]  ==  if T(c1): S(c1) elif ... elif T(cn): S(cn) [else: E]
    (a first-match search over a literal tuple; S must not rebind X, break or continue otherwise)"""

    def __init__(self) -> None:
        self.done = 0

    def visit_For(self, node: ast.For) -> ast.AST:
        self.generic_visit(node)
        if not (isinstance(node.target, ast.Name) and isinstance(node.iter, (ast.Tuple, ast.List)) and node.iter.elts
                and all(isinstance(e, ast.Constant) for e in node.iter.elts) and len(node.iter.elts) <= 8):
            return node
        if not (len(node.body) == 1 and isinstance(node.body[0], ast.If) and not node.body[0].orelse and node.body[0].body
                and isinstance(node.body[0].body[-1], ast.Break)):
            return node
        inner = node.body[0]
        stmts = inner.body[:-1]
        x = node.target.id
        for st in stmts:
            for n in ast.walk(st):
                if isinstance(n, (ast.Break, ast.Continue)) or (isinstance(n, ast.Name) and n.id == x and isinstance(n.ctx, ast.Store)):
                    return node
        chain: list[ast.stmt] = list(node.orelse)
        for c in reversed(node.iter.elts):
            ren = _Rename({x: c})
            test = ren.visit(copy.deepcopy(inner.test))
            body = [ren.visit(copy.deepcopy(st)) for st in stmts] or [ast.Pass()]
            chain = [ast.copy_location(ast.If(test, body, chain), node)]
        self.done += 1
        return chain[0]


# --------------------------------------------------------------------------- helper inlining
class _Rename(ast.NodeTransformer):
    def __init__(self, mapping: dict[str, ast.AST]) -> None:
        self.mapping = mapping

    def visit_Name(self, node: ast.Name) -> ast.AST:
        if node.id in self.mapping:
            repl = self.mapping[node.id]
            if isinstance(node.ctx, ast.Load):
                return copy.deepcopy(repl)
            if isinstance(repl, ast.Name):
                return ast.Name(repl.id, node.ctx)
        return node


def _assigned_names(body: list[ast.stmt]) -> set[str]:
    out: set[str] = set()
    for st in body:
        for n in walk_no_nested(st):
            if isinstance(n, ast.Name) and isinstance(n.ctx, (ast.Store, ast.Del)):
                out.add(n.id)
            if isinstance(n, ast.ExceptHandler) and n.name:
                out.add(n.name)
    return out


def _has_value_return(body: list[ast.stmt]) -> bool:
    return any(isinstance(n, ast.Return) and n.value is not None and not (isinstance(n.value, ast.Constant) and n.value.value is None)
               for st in body for n in walk_no_nested(st))


def _returns_in(body: list[ast.stmt]) -> int:
    return sum(1 for st in body for n in walk_no_nested(st) if isinstance(n, ast.Return))


def _ends(body: list[ast.stmt]) -> bool:
    """every path through body ends in return / raise"""
    if not body:
        return False
    last = body[-1]
    if isinstance(last, (ast.Return, ast.Raise)):
        return True
    if isinstance(last, ast.If):
        return bool(last.orelse) and _ends(last.body) and _ends(last.orelse)
    return False


def _assignify(body: list[ast.stmt], target: ast.AST | None) -> list[ast.stmt] | None:
    """Rewrite a body in which every path ends in `return v` (or raise) into one that assigns v to target and falls through.
    target None = discard the value.  Returns None when the shape is not supported (returns inside loops/try, ...)."""
    out: list[ast.stmt] = []
    for i, st in enumerate(body):
        rest = body[i + 1:]
        if isinstance(st, ast.Return):
            if rest:
                return None
            if target is not None:
                val = st.value if st.value is not None else ast.Constant(None)
                split = False
                if isinstance(target, ast.Tuple) and isinstance(val, ast.Tuple) and len(val.elts) == len(target.elts) and all(isinstance(t, ast.Name) for t in target.elts):
                    tnames = [t.id for t in target.elts]  # type: ignore[attr-defined]
                    # element-wise is the same as tuple assignment when no value reads a target assigned before it
                    split = all(not ({n.id for n in ast.walk(v) if isinstance(n, ast.Name)} & set(tnames[:i])) for i, v in enumerate(val.elts))
                if split:
                    for t, v in zip(target.elts, val.elts):  # type: ignore[union-attr]
                        if not (isinstance(v, ast.Name) and isinstance(t, ast.Name) and v.id == t.id):
                            out.append(ast.Assign([copy.deepcopy(t)], v, lineno=getattr(st, "lineno", 0)))
                else:
                    out.append(ast.Assign([copy.deepcopy(target)], val, lineno=getattr(st, "lineno", 0)))
            elif st.value is not None and any(isinstance(x, ast.Call) for x in ast.walk(st.value)):
                out.append(ast.Expr(st.value))
            return out
        if isinstance(st, ast.If) and _returns_in([st]):
            b = _assignify(st.body, target) if _returns_in(st.body) else list(st.body)
            if b is None:
                return None
            body_ends = _ends(st.body)
            if st.orelse:
                o = _assignify(st.orelse, target) if _returns_in(st.orelse) else list(st.orelse)
                if o is None:
                    return None
                else_ends = _ends(st.orelse)
                if body_ends and else_ends:
                    if rest:
                        return None
                    out.append(ast.If(st.test, b or [ast.Pass()], o or [ast.Pass()]))
                    return out
                if body_ends and not else_ends:
                    r = _assignify(rest, target)
                    if r is None:
                        return None
                    out.append(_mk_if(st.test, b, o + r))
                    return out
                if else_ends and not body_ends:
                    r = _assignify(rest, target)
                    if r is None:
                        return None
                    out.append(_mk_if(st.test, b + r, o))
                    return out
                return None
            # guard clause: if c: ...return   <rest>
            if body_ends:
                r = _assignify(rest, target) if rest else []
                if r is None:
                    return None
                out.append(_mk_if(st.test, b, r))
                return out
            return None
        if isinstance(st, ast.Try) and _returns_in([st]) and not st.finalbody and not rest:
            # every part of a trailing try is rewritten on its own
            tb = _assignify(st.body, target)
            if tb is None:
                return None
            hs = []
            for h in st.handlers:
                hb = _assignify(h.body, target) if _returns_in(h.body) else list(h.body)
                if hb is None:
                    return None
                hs.append(ast.ExceptHandler(h.type, h.name, hb or [ast.Pass()]))
            ob = (_assignify(st.orelse, target) if _returns_in(st.orelse) else list(st.orelse)) if st.orelse else []
            if ob is None:
                return None
            out.append(ast.Try(tb or [ast.Pass()], hs, ob, []))
            return out
        if _returns_in([st]):
            return None  # return inside a loop / with: not supported
        out.append(st)
    # fell off the end without return: value is None
    if target is not None:
        out.append(ast.Assign([copy.deepcopy(target)], ast.Constant(None), lineno=0))
    return out


def _mk_if(test: ast.AST, body: list[ast.stmt], orelse: list[ast.stmt]) -> ast.If:
    """if not X: A else: B  ->  if X: B else: A (when both arms exist), so guard clauses read like the positive form"""
    if isinstance(test, ast.UnaryOp) and isinstance(test.op, ast.Not) and body and orelse:
        return ast.If(test.operand, orelse, body)
    return ast.If(test, body or [ast.Pass()], orelse)


def _simple(e: ast.AST) -> bool:
    return isinstance(e, (ast.Name, ast.Constant)) or (isinstance(e, ast.Attribute) and _simple(e.value))


class _Inliner:
    def __init__(self, helpers: dict[str, FunctionInfo], owner_cls: str | None) -> None:
        self.helpers = helpers  # call spelling -> helper
        self.owner_cls = owner_cls
        self.done: list[str] = []
        self.gave_up: list[str] = []

    def _target(self, call: ast.Call) -> tuple[FunctionInfo, bool] | None:
        d = dotted(call.func)
        if d is None:
            return None
        if d in self.helpers:
            return self.helpers[d], False
        return None

    def _find_call(self, node: ast.AST) -> ast.Call | None:
        for n in walk_no_nested(node):
            if isinstance(n, ast.Call) and self._target(n) is not None:
                # innermost first: skip if an argument contains another helper call
                inner = [m for a in list(n.args) + [k.value for k in n.keywords] for m in ast.walk(a) if isinstance(m, ast.Call) and self._target(m) is not None]
                if inner:
                    return inner[0]
                return n
        return None

    def _own_exprs(self, st: ast.stmt) -> list[ast.AST]:
        """expressions evaluated by the statement itself (not its nested bodies)"""
        if isinstance(st, (ast.If, ast.While)):
            return [st.test]
        if isinstance(st, ast.For):
            return [st.iter]
        if isinstance(st, ast.With):
            return [i.context_expr for i in st.items]
        if isinstance(st, ast.Try):
            return []
        return [st]

    def body(self, body: list[ast.stmt], depth: int = 0) -> list[ast.stmt]:
        out: list[ast.stmt] = []
        for st in body:
            out += self.stmt(st, depth)
        return out

    def stmt(self, st: ast.stmt, depth: int) -> list[ast.stmt]:
        if depth > 6:
            return [st]
        for field in ("body", "orelse", "finalbody"):
            seq = getattr(st, field, None)
            if isinstance(seq, list) and seq and isinstance(seq[0], ast.stmt):
                setattr(st, field, self.body(seq, depth))
        if isinstance(st, ast.Try):
            for h in st.handlers:
                h.body = self.body(h.body, depth)
        call = None
        for e in self._own_exprs(st):
            call = self._find_call(e)
            if call is not None:
                break
        if call is None:
            return [st]
        H, _ = self._target(call)  # type: ignore[misc]
        expanded = self.expand(st, call, H)
        if expanded is None:
            self.gave_up.append(f"{H.qualname} @ {unparse(st)[:50]}")
            return [st]
        self.done.append(H.qualname)
        # the replacement may contain further helper calls
        return self.body(expanded, depth + 1)

    def expand(self, st: ast.stmt, call: ast.Call, H: FunctionInfo) -> list[ast.stmt] | None:
        _COUNTER[0] += 1
        tag = f"__{H.name.strip('_')}{_COUNTER[0]}"
        params = H.node.args
        names = [a.arg for a in params.posonlyargs + params.args]
        is_method_call = H.cls is not None and not H.is_static() and names and names[0] in ("self", "cls")
        mapping: dict[str, ast.AST] = {}
        pre: list[ast.stmt] = []
        if is_method_call:
            recv = call.func.value if isinstance(call.func, ast.Attribute) else ast.Name("self", ast.Load())
            mapping[names[0]] = recv
            names = names[1:]
        defaults = params.defaults
        default_of = {}
        all_pos = [a.arg for a in params.posonlyargs + params.args]
        for i, d in enumerate(defaults):
            default_of[all_pos[len(all_pos) - len(defaults) + i]] = d
        for a, d in zip(params.kwonlyargs, params.kw_defaults):
            if d is not None:
                default_of[a.arg] = d
        if params.vararg or params.kwarg or any(isinstance(a, ast.Starred) for a in call.args) or any(k.arg is None for k in call.keywords):
            return None
        bound: dict[str, ast.AST] = {}
        for n, a in zip(names, call.args):
            bound[n] = a
        if len(call.args) > len(names):
            return None
        for k in call.keywords:
            bound[k.arg] = k.value  # type: ignore[index]
        for n in names + [a.arg for a in params.kwonlyargs]:
            if n not in bound:
                if n in default_of:
                    bound[n] = default_of[n]
                else:
                    return None
        hbody = [copy.deepcopy(s) for s in H.node.body]
        if hbody and isinstance(hbody[0], ast.Expr) and isinstance(hbody[0].value, ast.Constant) and isinstance(hbody[0].value.value, str):
            hbody = hbody[1:]
        assigned = _assigned_names(hbody)
        for n, a in bound.items():
            if _simple(a) and n not in assigned:
                mapping[n] = a
            else:
                tmp = ast.Name(f"{n}{tag}", ast.Load())
                pre.append(ast.Assign([ast.Name(f"{n}{tag}", ast.Store())], a, lineno=getattr(st, "lineno", 0)))
                mapping[n] = tmp
        target_names: set[str] = set()
        if isinstance(st, (ast.Assign, ast.AnnAssign)) and st.value is call:
            tg = st.targets[0] if isinstance(st, ast.Assign) else st.target
            target_names = {n.id for n in ast.walk(tg) if isinstance(n, ast.Name)}
            arg_names = {n.id for a in list(call.args) + [k.value for k in call.keywords] for n in ast.walk(a) if isinstance(n, ast.Name)}
            target_names -= arg_names
        for n in assigned:
            if n not in mapping and n not in target_names:
                mapping[n] = ast.Name(f"{n}{tag}", ast.Load())
        ren = _Rename(mapping)
        hbody = [ren.visit(s) for s in hbody]
        for s in hbody:
            for n in ast.walk(s):
                if isinstance(n, ast.ExceptHandler) and n.name and n.name in mapping and isinstance(mapping[n.name], ast.Name):
                    n.name = mapping[n.name].id  # type: ignore[union-attr]
        # A. pure expression helper
        if len(hbody) == 1 and isinstance(hbody[0], ast.Return) and hbody[0].value is not None:
            new_st = _replace_node(st, call, hbody[0].value)
            return pre + [new_st]
        # statement forms
        if isinstance(st, ast.Expr) and st.value is call:
            b = _assignify(hbody, None) if _returns_in(hbody) else hbody
            return None if b is None else pre + b
        if isinstance(st, ast.Return) and st.value is call:
            return pre + hbody if _ends(hbody) else pre + hbody + [ast.Return(ast.Constant(None))]
        if isinstance(st, (ast.Assign, ast.AnnAssign)) and st.value is call:
            tgt = st.targets[0] if isinstance(st, ast.Assign) else st.target
            if isinstance(st, ast.Assign) and len(st.targets) != 1:
                return None
            tmpname = f"__ret{tag}"
            if isinstance(tgt, ast.Tuple) and all(isinstance(t, ast.Name) for t in tgt.elts):
                b2 = _assignify(hbody, tgt)
                if b2 is not None:
                    return pre + b2
            b = _assignify(hbody, ast.Name(tmpname, ast.Store()))
            if b is None:
                return None
            # collapse `tmp = v` as last statement straight into the target
            if b and isinstance(b[-1], ast.Assign) and isinstance(b[-1].targets[0], ast.Name) and b[-1].targets[0].id == tmpname:
                last = b.pop()
                if isinstance(tgt, ast.Name) and isinstance(last.value, ast.Name) and last.value.id == tgt.id:
                    return pre + b
                return pre + b + [ast.Assign([tgt], last.value, lineno=getattr(st, "lineno", 0))]
            return pre + b + [ast.Assign([tgt], ast.Name(tmpname, ast.Load()), lineno=getattr(st, "lineno", 0))]
        # E. nested in a larger expression: hoist
        tmpname = f"__val{tag}"
        hoist = ast.Assign([ast.Name(tmpname, ast.Store())], call, lineno=getattr(st, "lineno", 0))
        new_st = _replace_node(st, call, ast.Name(tmpname, ast.Load()))
        exp = self.expand(hoist, call, H)
        if exp is None:
            return None
        if isinstance(st, (ast.If, ast.While, ast.For, ast.With)):
            if isinstance(st, ast.While):
                return None  # re-evaluated each iteration: cannot hoist
            return exp + [new_st]
        return exp + [new_st]


def _replace_node(root: ast.AST, old: ast.AST, new: ast.AST) -> Any:
    class R(ast.NodeTransformer):
        def visit(self, node: ast.AST) -> Any:
            if node is old:
                return new
            return super().visit(node)

    # do not deepcopy root: `old` is identified by identity
    return R().visit(root)


def _body_sha(fn: FunctionInfo) -> str:
    import hashlib
    body = [s_ for s_ in fn.node.body if not (isinstance(s_, ast.Expr) and isinstance(s_.value, ast.Constant) and isinstance(s_.value.value, str))]
    return hashlib.sha256("\n".join(ast.dump(s_) for s_ in body).encode()).hexdigest()[:16]


def _rename_everywhere(repo: Repo, mi: ModuleInfo, fn: FunctionInfo, old: str) -> None:
    new = fn.node.name
    fn.node.name = old
    if fn.cls is not None:
        fn.cls.methods[old] = fn.cls.methods.pop(new)
    else:
        mi.functions[old] = mi.functions.pop(new)
    for om in repo.modules.values():
        for n in ast.walk(om.tree):
            if isinstance(n, ast.Attribute) and n.attr == new:
                n.attr = old
            elif isinstance(n, ast.Name) and n.id == new and fn.cls is None:
                n.id = old
        if fn.cls is None and new in om.imports and om.imports[new][0] == mi.name:
            om.imports[old] = (mi.name, old)


def _plain(fn: FunctionInfo) -> bool:
    """A helper wrapped by a decorator (memoisation, context manager, ...) is not equivalent to its inlined body."""
    return all((dotted(d) or "") in ("staticmethod", "classmethod") for d in fn.node.decorator_list)


# --------------------------------------------------------------------------- driver
def normalize_repo(repo: Repo) -> dict[str, object]:
    census = _load_census().get("modules", {})
    report: dict[str, object] = {"inlined_helpers": [], "kept_helpers": [], "propagated_constants": [], "gave_up": []}
    for mi in repo.modules.values():
        known = census.get(mi.name)
        if known is None:
            continue  # a wholly new module: nothing to fold back
        known_funcs = set(known.get("functions", []))
        known_globals = set(known.get("globals", []))
        # ---- a known function that was merely renamed (same body, old name gone) gets its old name back
        present = {f.qualname for f in list(mi.functions.values()) + [m for c in mi.classes.values() for m in c.methods.values()]}
        missing = known_funcs - present
        shas = known.get("body_sha", {})
        if missing:
            for fn in list(mi.functions.values()) + [m for c in mi.classes.values() for m in c.methods.values()]:
                if fn.qualname in known_funcs:
                    continue
                cands = [o for o in missing if shas.get(o) == _body_sha(fn) and ("." in o) == (fn.cls is not None) and (fn.cls is None or o.split(".")[0] == fn.cls.name)]
                if len(cands) == 1:
                    old = cands[0].split(".")[-1]
                    _rename_everywhere(repo, mi, fn, old)
                    missing.discard(cands[0])
                    report.setdefault("renamed_back", []).append(f"{mi.relpath}:{fn.qualname}")  # type: ignore[union-attr]
        # ---- new constants
        consts: dict[str, ast.AST] = {}
        for _round in range(3):
            for name, st in mi.assigns_all:
                if name in known_globals or name in mi.functions or name in mi.classes or name in consts:
                    continue
                if sum(1 for n, _ in mi.assigns_all if n == name) != 1:
                    continue
                val = st.value  # type: ignore[attr-defined]
                if consts:
                    val = _ConstProp(consts).visit(copy.deepcopy(val))
                v = _const_value(val)
                if v is not None:
                    consts[name] = v
        # ---- new helpers
        helpers_mod = {f.name: f for f in mi.functions.values() if f.qualname not in known_funcs and _plain(f)}
        all_fns: list[FunctionInfo] = list(mi.functions.values()) + [m for c in mi.classes.values() for m in c.methods.values()]
        for fn in all_fns:
            spellings: dict[str, FunctionInfo] = dict(helpers_mod)
            if fn.cls is not None:
                for m in fn.cls.methods.values():
                    if m.qualname not in known_funcs and m is not fn and m.name != "__init__" and _plain(m):
                        spellings[f"self.{m.name}"] = m
                        spellings[f"cls.{m.name}"] = m
                        spellings[f"{fn.cls.name}.{m.name}"] = m
            for cname, ci in mi.classes.items():
                for m in ci.methods.values():
                    if m.qualname not in known_funcs and m.is_static() and _plain(m):
                        spellings[f"{cname}.{m.name}"] = m
            spellings = {k: v for k, v in spellings.items() if v is not fn}
            if consts:
                cp = _ConstProp({k: v for k, v in consts.items() if k not in {a.arg for a in fn.node.args.args}})
                fn.node = cp.visit(fn.node)
                if cp.hits:
                    report["propagated_constants"].append(f"{fn.where}: {cp.hits}")  # type: ignore[union-attr]
            un = _SearchLoopUnroller()
            fn.node = un.visit(fn.node)
            if un.done:
                ast.fix_missing_locations(fn.node)
                report.setdefault("unrolled_search_loops", []).append(f"{fn.where}: {un.done}")  # type: ignore[union-attr]
            if spellings:
                _COUNTER[0] = 0
                inl = _Inliner(spellings, fn.cls.name if fn.cls else None)
                fn.node.body = inl.body(fn.node.body)
                ast.fix_missing_locations(fn.node)
                for h in inl.done:
                    report["inlined_helpers"].append(f"{h} -> {fn.qualname}")  # type: ignore[union-attr]
                for g in inl.gave_up:
                    report["gave_up"].append(f"{fn.where}: {g}")  # type: ignore[union-attr]
        # class-level constant propagation is not attempted
        # ---- drop helpers that are no longer referenced
        src_names: dict[str, int] = {}
        for fn in all_fns:
            for n in ast.walk(fn.node):
                if isinstance(n, ast.Name):
                    src_names[n.id] = src_names.get(n.id, 0) + 1
                if isinstance(n, ast.Attribute):
                    src_names[n.attr] = src_names.get(n.attr, 0) + 1
        for name, h in list(helpers_mod.items()):
            refs = sum(1 for fn in all_fns if fn is not h for n in ast.walk(fn.node) if (isinstance(n, ast.Name) and n.id == name))
            if refs == 0 and name not in mi.imports:
                # still referenced from other modules?
                used_elsewhere = any(name in om.imports and om.imports[name][0] == mi.name for om in repo.modules.values())
                if not used_elsewhere:
                    del mi.functions[name]
                    continue
            report["kept_helpers"].append(f"{mi.relpath}:{name}")  # type: ignore[union-attr]
        for ci in mi.classes.values():
            for mname, m in list(ci.methods.items()):
                if m.qualname in known_funcs or mname.startswith("__"):
                    continue
                refs = sum(1 for fn in all_fns if fn is not m for n in ast.walk(fn.node) if isinstance(n, ast.Attribute) and n.attr == mname)
                ext = any(isinstance(n, ast.Attribute) and n.attr == mname for om in repo.modules.values() if om is not mi for n in ast.walk(om.tree))
                if refs == 0 and not ext:
                    del ci.methods[mname]
                else:
                    report["kept_helpers"].append(f"{mi.relpath}:{ci.name}.{mname}")  # type: ignore[union-attr]
    return report
