"""Normalisation applied by the loader before any rule runs.

The census (refdata/census.json) lists the functions and module-level names that existed at the verified commit.  Anything a
later edit *adds* is folded back so that rules keep seeing the mechanism's own statements:

* a new helper function / private method is inlined into its callers (expression helpers, statement helpers, helpers whose
  result is assigned or returned; early-return helpers are turned into if/else first).  A helper all of whose call sites
  were inlined is dropped from the function index;
* a new module-level constant bound once to a literal (or to int.from_bytes(<bytes literal>, "big"|"little")) is replaced by
  its value where it is read.

Nothing is executed; the transformation is purely syntactic and is reported in the evidence (`normalization`)."""
from __future__ import annotations

import ast
import copy
import json
import os
from typing import Any

from .core import ClassInfo, FunctionInfo, ModuleInfo, Repo, dotted, unparse, walk_no_nested

HERE = os.path.dirname(os.path.dirname(os.path.abspath(__file__)))
_COUNTER = [0]


def _load_census() -> dict[str, Any]:
    p = os.path.join(HERE, "refdata", "census.json")
    if not os.path.exists(p):
        return {"modules": {}}
    with open(p) as f:
        return json.load(f)


# --------------------------------------------------------------------------- constants
def _const_value(node: ast.AST, names_ok: frozenset[str] | set[str] = frozenset()) -> ast.AST | None:
    """literal AST for a module-level constant, or None.  names_ok: module-level names the tree already had (a tuple / frozenset may
    list them next to literals: `frozenset({"\n", EOF})`)"""
    if isinstance(node, ast.Constant):
        return node
    atom = lambda e: isinstance(e, ast.Constant) or (isinstance(e, ast.Name) and e.id in names_ok) or \
        (isinstance(e, ast.Attribute) and isinstance(e.value, ast.Name) and e.value.id in names_ok and e.value.id[:1].isupper())  # Enum.member  # noqa: E731
    if names_ok and isinstance(node, ast.Tuple) and node.elts and all(atom(e) for e in node.elts):
        return node
    if names_ok and isinstance(node, ast.Call) and dotted(node.func) in ("frozenset", "tuple") and len(node.args) == 1 and isinstance(node.args[0], (ast.Tuple, ast.List, ast.Set)) \
            and node.args[0].elts and all(atom(e) for e in node.args[0].elts):
        return ast.Tuple(list(node.args[0].elts), ast.Load())
    # only immutable values are propagated: a module-level list/dict/set is shared mutable state and must stay visible
    if isinstance(node, ast.Tuple) and all(isinstance(e, ast.Constant) for e in node.elts):
        return node
    if isinstance(node, ast.UnaryOp) and isinstance(node.operand, ast.Constant):
        return node
    if isinstance(node, ast.Call) and dotted(node.func) == "int.from_bytes" and len(node.args) == 2 and isinstance(node.args[0], ast.Constant) \
            and isinstance(node.args[0].value, bytes) and isinstance(node.args[1], ast.Constant) and node.args[1].value in ("big", "little"):
        return ast.Constant(int.from_bytes(node.args[0].value, node.args[1].value))
    if isinstance(node, ast.Call) and dotted(node.func) in ("frozenset", "tuple") and len(node.args) == 1 and isinstance(node.args[0], (ast.Tuple, ast.List, ast.Set)) \
            and all(isinstance(e, ast.Constant) for e in node.args[0].elts):
        return ast.Tuple(list(node.args[0].elts), ast.Load())
    if isinstance(node, ast.BinOp):
        from .match import const_int
        v = const_int(node)
        if v is not None:
            return ast.Constant(v)
    sv = _const_string(node)
    if sv is not None:
        return ast.Constant(sv)
    return None


def _const_string(node: ast.AST) -> str | None:
    """a string built from literals and the constants of the standard `string` module (`"_" + string.ascii_letters`, ...)"""
    import string as _string

    if isinstance(node, ast.Constant) and isinstance(node.value, str):
        return node.value
    if isinstance(node, ast.Attribute) and isinstance(node.value, ast.Name) and node.value.id == "string" and \
            node.attr in ("ascii_letters", "ascii_lowercase", "ascii_uppercase", "digits", "hexdigits", "octdigits", "punctuation", "whitespace"):
        return getattr(_string, node.attr)
    if isinstance(node, ast.BinOp) and isinstance(node.op, ast.Add):
        a, b = _const_string(node.left), _const_string(node.right)
        return a + b if a is not None and b is not None else None
    if isinstance(node, ast.Call) and isinstance(node.func, ast.Attribute) and node.func.attr == "join" and isinstance(node.func.value, ast.Constant) \
            and node.func.value.value == "" and len(node.args) == 1:
        a0 = node.args[0]
        if isinstance(a0, ast.Call) and isinstance(a0.func, ast.Name) and a0.func.id == "sorted" and len(a0.args) == 1:
            inner = _const_string(a0.args[0])
            return "".join(sorted(inner)) if inner is not None else None
        if isinstance(a0, (ast.Tuple, ast.List)):
            parts = [_const_string(e) for e in a0.elts]
            return "".join(parts) if all(p is not None for p in parts) else None  # type: ignore[arg-type]
    return None


class _StringFold(ast.NodeTransformer):
    """`string.hexdigits`, `"_" + string.ascii_letters`, ... -> the literal they denote"""

    def __init__(self) -> None:
        self.hits = 0

    def visit_Attribute(self, node: ast.Attribute) -> ast.AST:
        v = _const_string(node)
        if v is not None:
            self.hits += 1
            return ast.copy_location(ast.Constant(v), node)
        self.generic_visit(node)
        return node

    def visit_Call(self, node: ast.Call) -> ast.AST:
        """len(b'PATCH') -> 5"""
        self.generic_visit(node)
        if isinstance(node.func, ast.Name) and node.func.id == "len" and len(node.args) == 1 and not node.keywords and isinstance(node.args[0], ast.Constant) \
                and isinstance(node.args[0].value, (str, bytes)):
            self.hits += 1
            return ast.copy_location(ast.Constant(len(node.args[0].value)), node)
        return node

    def visit_JoinedStr(self, node: ast.JoinedStr) -> ast.AST:
        """f'{x}{'_mirror'}' -> f'{x}_mirror' : a literal string placed in a replacement field is that text"""
        self.generic_visit(node)
        parts: list[ast.expr] = []
        for v in node.values:
            if isinstance(v, ast.FormattedValue) and v.conversion == -1 and v.format_spec is None and isinstance(v.value, ast.Constant) and isinstance(v.value.value, str):
                v = ast.Constant(v.value.value)
                self.hits += 1
            if isinstance(v, ast.Constant) and isinstance(v.value, str) and parts and isinstance(parts[-1], ast.Constant) and isinstance(parts[-1].value, str):
                parts[-1] = ast.Constant(parts[-1].value + v.value)
            else:
                parts.append(v)
        node.values = parts
        if len(parts) == 1 and isinstance(parts[0], ast.Constant):
            return ast.copy_location(parts[0], node)
        return node

    def visit_BinOp(self, node: ast.BinOp) -> ast.AST:
        self.generic_visit(node)
        if isinstance(node.op, ast.Add) and isinstance(node.left, ast.Constant) and isinstance(node.right, ast.Constant) \
                and isinstance(node.left.value, str) and isinstance(node.right.value, str):
            self.hits += 1
            return ast.copy_location(ast.Constant(node.left.value + node.right.value), node)
        return node


class _ConstProp(ast.NodeTransformer):
    def __init__(self, consts: dict[str, ast.AST]) -> None:
        self.consts = consts
        self.hits = 0

    def visit_Name(self, node: ast.Name) -> ast.AST:
        if isinstance(node.ctx, ast.Load) and node.id in self.consts:
            self.hits += 1
            return ast.copy_location(copy.deepcopy(self.consts[node.id]), node)
        return node


class _SearchLoopUnroller(ast.NodeTransformer):
    """`for X in (c1, ..., cn): if T(X): S(X); break` [else: E]  ==  if T(c1): S(c1) elif ... elif T(cn): S(cn) [else: E]
    (a first-match search over a literal tuple; S must not rebind X, break or continue otherwise)"""

    def __init__(self) -> None:
        self.done = 0

    @staticmethod
    def _literal(e: ast.AST) -> bool:
        return isinstance(e, (ast.Constant, ast.Name)) or (isinstance(e, ast.Tuple) and all(isinstance(x, (ast.Constant, ast.Name)) for x in e.elts))

    def visit_For(self, node: ast.For) -> Any:
        self.generic_visit(node)
        # plain repetition over a short literal tuple (no break / continue / else): one copy of the body per element
        if (isinstance(node.target, ast.Name) and isinstance(node.iter, (ast.Tuple, ast.List)) and 1 <= len(node.iter.elts) <= 4 and not node.orelse
                and all(self._literal(e) for e in node.iter.elts) and any(isinstance(e, ast.Tuple) for e in node.iter.elts)
                and not any(isinstance(n, (ast.Break, ast.Continue)) or (isinstance(n, ast.Name) and n.id == node.target.id and isinstance(n.ctx, ast.Store))
                            for st in node.body for n in ast.walk(st))):
            out: list[ast.stmt] = []
            for c in node.iter.elts:
                ren = _Rename({node.target.id: c})
                out += [ren.visit(copy.deepcopy(st)) for st in node.body]
            self.done += 1
            return out
        if not (isinstance(node.target, ast.Name) and isinstance(node.iter, (ast.Tuple, ast.List)) and node.iter.elts
                and all(isinstance(e, ast.Constant) for e in node.iter.elts) and len(node.iter.elts) <= 8):
            return node
        if not (len(node.body) == 1 and isinstance(node.body[0], ast.If) and not node.body[0].orelse and node.body[0].body
                and isinstance(node.body[0].body[-1], ast.Break)):
            return node
        inner = node.body[0]
        stmts = inner.body[:-1]
        x = node.target.id
        for st in stmts:
            for n in ast.walk(st):
                if isinstance(n, (ast.Break, ast.Continue)) or (isinstance(n, ast.Name) and n.id == x and isinstance(n.ctx, ast.Store)):
                    return node
        chain: list[ast.stmt] = list(node.orelse)
        for c in reversed(node.iter.elts):
            ren = _Rename({x: c})
            test = ren.visit(copy.deepcopy(inner.test))
            body = [ren.visit(copy.deepcopy(st)) for st in stmts] or [ast.Pass()]
            chain = [ast.copy_location(ast.If(test, body, chain), node)]
        self.done += 1
        return chain[0]


def _get_then_raise(body: list[ast.stmt]) -> tuple[list[ast.stmt], int]:
    """`x = D.get(K[, S])` directly followed by `if x is None|S: raise KeyError(K)`  ==  `x = D[K]`
    (the explicit spelling of what a subscript does; sound as long as no value of D is the sentinel)"""
    out: list[ast.stmt] = []
    n = 0
    i = 0
    while i < len(body):
        st = body[i]
        for field in ("body", "orelse", "finalbody"):
            seq = getattr(st, field, None)
            if isinstance(seq, list) and seq and isinstance(seq[0], ast.stmt):
                new, k = _get_then_raise(seq)
                setattr(st, field, new)
                n += k
        if isinstance(st, ast.Try):
            for h in st.handlers:
                h.body, k = _get_then_raise(h.body)
                n += k
        tgt = val = None
        if isinstance(st, ast.Assign) and len(st.targets) == 1 and isinstance(st.targets[0], ast.Name):
            tgt, val = st.targets[0], st.value
        elif isinstance(st, ast.AnnAssign) and isinstance(st.target, ast.Name) and st.value is not None:
            tgt, val = st.target, st.value
        nxt = body[i + 1] if i + 1 < len(body) else None
        if (tgt is not None and isinstance(val, ast.Call) and isinstance(val.func, ast.Attribute) and val.func.attr == "get" and 1 <= len(val.args) <= 2
                and not val.keywords and isinstance(nxt, ast.If) and len(nxt.body) == 1 and isinstance(nxt.body[0], ast.Raise)):
            sentinel = unparse(val.args[1]) if len(val.args) == 2 else "None"
            test = unparse(nxt.test)
            exc = nxt.body[0].exc
            key = unparse(val.args[0])
            if (test == f"{tgt.id} is {sentinel}" and isinstance(exc, ast.Call) and dotted(exc.func) == "KeyError" and len(exc.args) == 1
                    and unparse(exc.args[0]) == key and nxt.body[0].cause is None and (sentinel == "None" or sentinel.isidentifier())):
                sub = ast.Subscript(val.func.value, val.args[0], ast.Load())
                out.append(ast.copy_location(ast.Assign([ast.Name(tgt.id, ast.Store())], sub), st))
                out.extend(nxt.orelse)  # `else:` after a raising body is what follows the if
                n += 1
                i += 2
                continue
        out.append(st)
        i += 1
    return out, n


# --------------------------------------------------------------------------- helper inlining
class _Rename(ast.NodeTransformer):
    def __init__(self, mapping: dict[str, ast.AST]) -> None:
        self.mapping = mapping

    def visit_Name(self, node: ast.Name) -> ast.AST:
        if node.id in self.mapping:
            repl = self.mapping[node.id]
            if isinstance(node.ctx, ast.Load):
                return copy.deepcopy(repl)
            if isinstance(repl, ast.Name):
                return ast.Name(repl.id, node.ctx)
        return node


def _assigned_names(body: list[ast.stmt]) -> set[str]:
    out: set[str] = set()
    for st in body:
        for n in walk_no_nested(st):
            if isinstance(n, ast.Name) and isinstance(n.ctx, (ast.Store, ast.Del)):
                out.add(n.id)
            if isinstance(n, ast.ExceptHandler) and n.name:
                out.add(n.name)
    return out


def _has_value_return(body: list[ast.stmt]) -> bool:
    return any(isinstance(n, ast.Return) and n.value is not None and not (isinstance(n.value, ast.Constant) and n.value.value is None)
               for st in body for n in walk_no_nested(st))


def _returns_in(body: list[ast.stmt]) -> int:
    return sum(1 for st in body for n in walk_no_nested(st) if isinstance(n, ast.Return))


def _ends(body: list[ast.stmt]) -> bool:
    """every path through body ends in return / raise"""
    if not body:
        return False
    last = body[-1]
    if isinstance(last, (ast.Return, ast.Raise)):
        return True
    if isinstance(last, ast.If):
        return bool(last.orelse) and _ends(last.body) and _ends(last.orelse)
    return False


def _assignify(body: list[ast.stmt], target: ast.AST | None) -> list[ast.stmt] | None:
    """Rewrite a body in which every path ends in `return v` (or raise) into one that assigns v to target and falls through.
    target None = discard the value.  Returns None when the shape is not supported (returns inside loops/try, ...)."""
    out: list[ast.stmt] = []
    for i, st in enumerate(body):
        rest = body[i + 1:]
        if isinstance(st, ast.Return):
            if rest:
                return None
            if target is not None:
                val = st.value if st.value is not None else ast.Constant(None)
                split = False
                if isinstance(target, ast.Tuple) and isinstance(val, ast.Tuple) and len(val.elts) == len(target.elts) and all(isinstance(t, ast.Name) for t in target.elts):
                    tnames = [t.id for t in target.elts]  # type: ignore[attr-defined]
                    # element-wise is the same as tuple assignment when no value reads a target assigned before it
                    split = all(not ({n.id for n in ast.walk(v) if isinstance(n, ast.Name)} & set(tnames[:i])) for i, v in enumerate(val.elts))
                if split:
                    for t, v in zip(target.elts, val.elts):  # type: ignore[union-attr]
                        if not (isinstance(v, ast.Name) and isinstance(t, ast.Name) and v.id == t.id):
                            out.append(ast.Assign([copy.deepcopy(t)], v, lineno=getattr(st, "lineno", 0)))
                else:
                    out.append(ast.Assign([copy.deepcopy(target)], val, lineno=getattr(st, "lineno", 0)))
            elif st.value is not None and any(isinstance(x, ast.Call) for x in ast.walk(st.value)):
                out.append(ast.Expr(st.value))
            return out
        if isinstance(st, ast.If) and _returns_in([st]):
            b = _assignify(st.body, target) if _returns_in(st.body) else list(st.body)
            if b is None:
                return None
            body_ends = _ends(st.body)
            if st.orelse:
                o = _assignify(st.orelse, target) if _returns_in(st.orelse) else list(st.orelse)
                if o is None:
                    return None
                else_ends = _ends(st.orelse)
                if body_ends and else_ends:
                    if rest:
                        return None
                    out.append(ast.If(st.test, b or [ast.Pass()], o or [ast.Pass()]))
                    return out
                if body_ends and not else_ends:
                    r = _assignify(rest, target)
                    if r is None:
                        return None
                    out.append(_mk_if(st.test, b, o + r))
                    return out
                if else_ends and not body_ends:
                    r = _assignify(rest, target)
                    if r is None:
                        return None
                    out.append(_mk_if(st.test, b + r, o))
                    return out
                return None
            # guard clause: if c: ...return   <rest>
            if body_ends:
                r = _assignify(rest, target) if rest else []
                if r is None:
                    return None
                out.append(_mk_if(st.test, b, r))
                return out
            return None
        if isinstance(st, ast.Try) and _returns_in([st]) and not st.finalbody and rest and not _returns_in(st.body) and not _returns_in(st.orelse) \
                and all(_ends(h.body) for h in st.handlers):
            # try: B  except: <return/raise>  ; REST   ==   try: B  except: <...>  else: REST   (handlers never fall through)
            moved = ast.Try(st.body, st.handlers, list(st.orelse) + list(rest), [])
            r = _assignify([moved], target)
            if r is None:
                return None
            return out + r
        if isinstance(st, ast.Try) and _returns_in([st]) and not st.finalbody and not rest:
            # every part of a trailing try is rewritten on its own
            tb = _assignify(st.body, target)
            if tb is None:
                return None
            hs = []
            for h in st.handlers:
                hb = _assignify(h.body, target) if _returns_in(h.body) else list(h.body)
                if hb is None:
                    return None
                hs.append(ast.ExceptHandler(h.type, h.name, hb or [ast.Pass()]))
            ob = (_assignify(st.orelse, target) if _returns_in(st.orelse) else list(st.orelse)) if st.orelse else []
            if ob is None:
                return None
            out.append(ast.Try(tb or [ast.Pass()], hs, ob, []))
            return out
        if isinstance(st, ast.With) and not rest and _returns_in(st.body):
            # a trailing `with` whose body returns: the value is assigned inside, the context is left either way
            b = _assignify(st.body, target)
            if b is None:
                return None
            out.append(ast.With(st.items, b or [ast.Pass()]))
            return out
        if _returns_in([st]):
            return None  # return inside a loop: not supported
        out.append(st)
    # fell off the end without return: value is None
    if target is not None:
        out.append(ast.Assign([copy.deepcopy(target)], ast.Constant(None), lineno=0))
    return out


def _mk_if(test: ast.AST, body: list[ast.stmt], orelse: list[ast.stmt]) -> ast.If:
    """if not X: A else: B  ->  if X: B else: A (when both arms exist), so guard clauses read like the positive form"""
    if isinstance(test, ast.UnaryOp) and isinstance(test.op, ast.Not) and body and orelse:
        return ast.If(test.operand, orelse, body)
    return ast.If(test, body or [ast.Pass()], orelse)


def _simple(e: ast.AST) -> bool:
    return isinstance(e, (ast.Name, ast.Constant)) or (isinstance(e, ast.Attribute) and _simple(e.value)) or \
        (isinstance(e, ast.Tuple) and all(isinstance(x, (ast.Name, ast.Constant)) for x in e.elts))


class _Inliner:
    def __init__(self, helpers: dict[str, FunctionInfo], owner_cls: str | None) -> None:
        self.helpers = helpers  # call spelling -> helper
        self.owner_cls = owner_cls
        self.done: list[str] = []
        self.gave_up: list[str] = []

    def _target(self, call: ast.Call) -> tuple[FunctionInfo, bool] | None:
        d = dotted(call.func)
        if d is None:
            return None
        if d in self.helpers:
            return self.helpers[d], False
        return None

    def _find_call(self, node: ast.AST) -> ast.Call | None:
        for n in walk_no_nested(node):
            if isinstance(n, ast.Call) and self._target(n) is not None:
                # innermost first: skip if an argument contains another helper call
                inner = [m for a in list(n.args) + [k.value for k in n.keywords] for m in ast.walk(a) if isinstance(m, ast.Call) and self._target(m) is not None]
                if inner:
                    return inner[0]
                return n
        return None

    def _own_exprs(self, st: ast.stmt) -> list[ast.AST]:
        """expressions evaluated by the statement itself (not its nested bodies)"""
        if isinstance(st, (ast.If, ast.While)):
            return [st.test]
        if isinstance(st, ast.For):
            return [st.iter]
        if isinstance(st, ast.With):
            return [i.context_expr for i in st.items]
        if isinstance(st, ast.Try):
            return []
        return [st]

    def body(self, body: list[ast.stmt], depth: int = 0) -> list[ast.stmt]:
        out: list[ast.stmt] = []
        for st in body:
            out += self.stmt(st, depth)
        return out

    def stmt(self, st: ast.stmt, depth: int) -> list[ast.stmt]:
        if depth > 6:
            return [st]
        for field in ("body", "orelse", "finalbody"):
            seq = getattr(st, field, None)
            if isinstance(seq, list) and seq and isinstance(seq[0], ast.stmt):
                setattr(st, field, self.body(seq, depth))
        if isinstance(st, ast.Try):
            for h in st.handlers:
                h.body = self.body(h.body, depth)
        call = None
        for e in self._own_exprs(st):
            call = self._find_call(e)
            if call is not None:
                break
        if call is None:
            return [st]
        H, _ = self._target(call)  # type: ignore[misc]
        expanded = self.expand(st, call, H)
        if expanded is None:
            self.gave_up.append(f"{H.qualname} @ {unparse(st)[:50]}")
            return [st]
        self.done.append(H.qualname)
        # the replacement may contain further helper calls
        return self.body(expanded, depth + 1)

    def expand(self, st: ast.stmt, call: ast.Call, H: FunctionInfo) -> list[ast.stmt] | None:
        _COUNTER[0] += 1
        tag = f"__{H.name.strip('_')}{_COUNTER[0]}"
        params = H.node.args
        names = [a.arg for a in params.posonlyargs + params.args]
        is_method_call = H.cls is not None and not H.is_static() and names and names[0] in ("self", "cls")
        mapping: dict[str, ast.AST] = {}
        pre: list[ast.stmt] = []
        if is_method_call:
            recv = call.func.value if isinstance(call.func, ast.Attribute) else ast.Name("self", ast.Load())
            mapping[names[0]] = recv
            names = names[1:]
        defaults = params.defaults
        default_of = {}
        all_pos = [a.arg for a in params.posonlyargs + params.args]
        for i, d in enumerate(defaults):
            default_of[all_pos[len(all_pos) - len(defaults) + i]] = d
        for a, d in zip(params.kwonlyargs, params.kw_defaults):
            if d is not None:
                default_of[a.arg] = d
        if params.vararg or params.kwarg or any(isinstance(a, ast.Starred) for a in call.args) or any(k.arg is None for k in call.keywords):
            return None
        bound: dict[str, ast.AST] = {}
        for n, a in zip(names, call.args):
            bound[n] = a
        if len(call.args) > len(names):
            return None
        for k in call.keywords:
            bound[k.arg] = k.value  # type: ignore[index]
        for n in names + [a.arg for a in params.kwonlyargs]:
            if n not in bound:
                if n in default_of:
                    bound[n] = default_of[n]
                else:
                    return None
        hbody = [copy.deepcopy(s) for s in H.node.body]
        if hbody and isinstance(hbody[0], ast.Expr) and isinstance(hbody[0].value, ast.Constant) and isinstance(hbody[0].value.value, str):
            hbody = hbody[1:]
        assigned = _assigned_names(hbody)
        # a single-expression helper that reads a parameter exactly once may take the argument expression itself (one such
        # argument at most, so the order of evaluation is kept)
        direct: set[str] = set()
        if len(hbody) == 1 and isinstance(hbody[0], ast.Return) and hbody[0].value is not None:
            nonsimple = [n for n, a in bound.items() if not _simple(a)]
            if len(nonsimple) == 1:
                uses = sum(1 for x in ast.walk(hbody[0].value) if isinstance(x, ast.Name) and x.id == nonsimple[0])
                if uses == 1:
                    direct.add(nonsimple[0])
        # `T = helper(.., T, ..)` where the helper may rebind that parameter and every return hands it back: the parameter IS T
        threaded: set[str] = set()
        if isinstance(st, ast.Assign) and st.value is call and len(st.targets) == 1 and isinstance(st.targets[0], ast.Name):
            rets = [r for s_ in hbody for r in ast.walk(s_) if isinstance(r, ast.Return)]
            for n, a in bound.items():
                if isinstance(a, ast.Name) and a.id == st.targets[0].id and rets and all(isinstance(r.value, ast.Name) and r.value.id == n for r in rets):
                    threaded.add(n)
        for n, a in bound.items():
            if n in threaded:
                mapping[n] = a
            elif (_simple(a) or n in direct) and n not in assigned:
                mapping[n] = a
            else:
                tmp = ast.Name(f"{n}{tag}", ast.Load())
                pre.append(ast.Assign([ast.Name(f"{n}{tag}", ast.Store())], a, lineno=getattr(st, "lineno", 0)))
                mapping[n] = tmp
        target_names: set[str] = set()
        if isinstance(st, (ast.Assign, ast.AnnAssign)) and st.value is call:
            tg = st.targets[0] if isinstance(st, ast.Assign) else st.target
            target_names = {n.id for n in ast.walk(tg) if isinstance(n, ast.Name)}
            arg_names = {n.id for a in list(call.args) + [k.value for k in call.keywords] for n in ast.walk(a) if isinstance(n, ast.Name)}
            target_names -= arg_names
        for n in assigned:
            if n not in mapping:
                mapping[n] = ast.Name(f"{n}{tag}", ast.Load())
        ren = _Rename(mapping)
        hbody = [ren.visit(s) for s in hbody]
        for s in hbody:
            for n in ast.walk(s):
                if isinstance(n, ast.ExceptHandler) and n.name and n.name in mapping and isinstance(mapping[n.name], ast.Name):
                    n.name = mapping[n.name].id  # type: ignore[union-attr]
        # A. pure expression helper
        if len(hbody) == 1 and isinstance(hbody[0], ast.Return) and hbody[0].value is not None:
            new_st = _replace_node(st, call, hbody[0].value)
            return pre + [new_st]
        # statement forms
        if isinstance(st, ast.Expr) and st.value is call:
            b = _assignify(hbody, None) if _returns_in(hbody) else hbody
            return None if b is None else pre + b
        if isinstance(st, ast.Return) and st.value is call:
            return pre + hbody if _ends(hbody) else pre + hbody + [ast.Return(ast.Constant(None))]
        if isinstance(st, (ast.Assign, ast.AnnAssign)) and st.value is call:
            tgt = st.targets[0] if isinstance(st, ast.Assign) else st.target
            if isinstance(st, ast.Assign) and len(st.targets) != 1:
                return None
            tmpname = f"__ret{tag}"
            if isinstance(tgt, ast.Tuple) and all(isinstance(t, ast.Name) for t in tgt.elts):
                b2 = _assignify(hbody, tgt)
                if b2 is not None:
                    return pre + b2
            b = _assignify(hbody, ast.Name(tmpname, ast.Store()))
            if b is None:
                return None
            # collapse `tmp = v` as last statement straight into the target
            if b and isinstance(b[-1], ast.Assign) and isinstance(b[-1].targets[0], ast.Name) and b[-1].targets[0].id == tmpname:
                last = b.pop()
                if isinstance(tgt, ast.Name) and isinstance(last.value, ast.Name) and last.value.id == tgt.id:
                    return pre + b
                return pre + b + [ast.Assign([tgt], last.value, lineno=getattr(st, "lineno", 0))]
            return pre + b + [ast.Assign([tgt], ast.Name(tmpname, ast.Load()), lineno=getattr(st, "lineno", 0))]
        # E. nested in a larger expression: hoist
        tmpname = f"__val{tag}"
        if isinstance(st, ast.While):
            return None  # re-evaluated each iteration: cannot hoist
        hoist = ast.Assign([ast.Name(tmpname, ast.Store())], call, lineno=getattr(st, "lineno", 0))
        exp = self.expand(hoist, call, H)
        if exp is None:
            return None  # (the statement is left untouched)
        new_st = _replace_node(st, call, ast.Name(tmpname, ast.Load()))
        return exp + [new_st]


def _replace_node(root: ast.AST, old: ast.AST, new: ast.AST) -> Any:
    class R(ast.NodeTransformer):
        def visit(self, node: ast.AST) -> Any:
            if node is old:
                return new
            return super().visit(node)

    # do not deepcopy root: `old` is identified by identity
    return R().visit(root)


def _body_sha(fn: FunctionInfo) -> str:
    import hashlib
    body = [s_ for s_ in fn.node.body if not (isinstance(s_, ast.Expr) and isinstance(s_.value, ast.Constant) and isinstance(s_.value.value, str))]
    return hashlib.sha256("\n".join(ast.dump(s_) for s_ in body).encode()).hexdigest()[:16]


def _rename_everywhere(repo: Repo, mi: ModuleInfo, fn: FunctionInfo, old: str) -> None:
    new = fn.node.name
    fn.node.name = old
    if fn.cls is not None:
        fn.cls.methods[old] = fn.cls.methods.pop(new)
    else:
        mi.functions[old] = mi.functions.pop(new)
    for om in repo.modules.values():
        for n in ast.walk(om.tree):
            if isinstance(n, ast.Attribute) and n.attr == new:
                n.attr = old
            elif isinstance(n, ast.Name) and n.id == new and fn.cls is None:
                n.id = old
        if fn.cls is None and new in om.imports and om.imports[new][0] == mi.name:
            om.imports[old] = (mi.name, old)


_PRIM = {"int", "str", "bytes", "bool", "float", "None"}
_PURE_BUILTINS = {"int", "str", "bytes", "bool", "float", "len", "hex", "bin", "oct", "min", "max", "abs", "tuple", "range", "sum", "divmod", "ord", "chr",
                  "sorted", "reversed", "enumerate", "zip", "isinstance", "type", "repr", "round", "any", "all", "frozenset", "pow"}


def _prim_ann(a: ast.AST | None) -> bool:
    if a is None:
        return False
    if isinstance(a, ast.Constant):
        return a.value is None or (isinstance(a.value, str) and a.value in _PRIM)
    if isinstance(a, ast.Name):
        return a.id in _PRIM
    if isinstance(a, ast.BinOp) and isinstance(a.op, ast.BitOr):
        return _prim_ann(a.left) and _prim_ann(a.right)
    if isinstance(a, ast.Subscript) and (dotted(a.value) or "").split(".")[-1] in ("tuple", "Tuple", "Optional", "Union"):
        elts = a.slice.elts if isinstance(a.slice, ast.Tuple) else [a.slice]
        return all(_prim_ann(e) or (isinstance(e, ast.Constant) and e.value is Ellipsis) for e in elts)
    return False


def _pure_of_primitives(fn: FunctionInfo) -> bool:
    """every parameter is an immutable primitive and the body reads nothing but its parameters, its locals, pure builtins, `struct`
    and module-level literal constants: memoising such a function cannot change what it returns"""
    args = fn.node.args
    params = args.posonlyargs + args.args + args.kwonlyargs
    if args.vararg or args.kwarg or not params or not all(_prim_ann(a.annotation) for a in params):
        return False
    local = {a.arg for a in params} | _assigned_names(fn.node.body)
    skip: set[int] = set()
    for st in fn.node.body:
        for x in ast.walk(st):
            if isinstance(x, ast.AnnAssign):
                skip |= {id(y) for y in ast.walk(x.annotation)}
    for n in [x for st in fn.node.body for x in ast.walk(st) if id(x) not in skip]:
        if isinstance(n, (ast.Global, ast.Nonlocal, ast.Yield, ast.YieldFrom, ast.Await, ast.Lambda, ast.FunctionDef, ast.ClassDef)):
            return False
        if isinstance(n, ast.Name) and isinstance(n.ctx, ast.Load) and n.id not in local and n.id not in _PURE_BUILTINS and n.id != "struct":
            st = fn.module.assigns.get(n.id)
            if not (st is not None and _const_value(st) is not None):
                return False
        if isinstance(n, ast.Attribute) and isinstance(n.value, ast.Name) and n.value.id not in local and n.value.id != "struct":
            return False
    return True


def _plain(fn: FunctionInfo) -> bool:
    """A helper wrapped by a decorator (memoisation, context manager, ...) is not equivalent to its inlined body - except a
    memoised pure function of immutable primitives, whose decorator is transparent."""
    for d in fn.node.decorator_list:
        name = (dotted(d if not isinstance(d, ast.Call) else d.func) or "")
        if name in ("staticmethod", "classmethod"):
            continue
        if name.split(".")[-1] in ("lru_cache", "cache") and _pure_of_primitives(fn):
            continue
        return False
    # a mutable default is one object shared by all calls: binding a fresh one at each inlined call site would hide that sharing
    a = fn.node.args
    for d in list(a.defaults) + [k for k in a.kw_defaults if k is not None]:
        if isinstance(d, (ast.List, ast.Dict, ast.Set, ast.ListComp, ast.DictComp, ast.SetComp)) or \
                (isinstance(d, ast.Call) and (dotted(d.func) or "") not in ("frozenset", "tuple", "int", "str", "bytes", "float", "bool")):
            return False
    return True



# --------------------------------------------------------------------------- value objects of new classes
def _value_class_fields(ci: ClassInfo) -> list[tuple[str, ast.AST | None]] | None:
    """(field, default) in constructor order for a new @dataclass / NamedTuple; None when the class is anything else"""
    is_dc = any((dotted(d if not isinstance(d, ast.Call) else d.func) or "").split(".")[-1] == "dataclass" for d in ci.node.decorator_list)
    is_nt = any(b.split(".")[-1] == "NamedTuple" for b in ci.base_names)
    if not (is_dc or is_nt) or "__init__" in ci.methods or "__post_init__" in ci.methods or "__new__" in ci.methods:
        return None
    if is_dc and len(ci.base_names) > 0:
        return None
    out: list[tuple[str, ast.AST | None]] = []
    for st in ci.node.body:
        if isinstance(st, ast.AnnAssign) and isinstance(st.target, ast.Name):
            if "ClassVar" in unparse(st.annotation):
                continue
            d = st.value
            if isinstance(d, ast.Call) and (dotted(d.func) or "").split(".")[-1] == "field":
                fac = next((k.value for k in d.keywords if k.arg == "default_factory"), None)
                dv = next((k.value for k in d.keywords if k.arg == "default"), None)
                d = ast.Call(fac, [], []) if fac is not None else dv
            out.append((st.target.id, d))
        elif isinstance(st, (ast.FunctionDef, ast.Pass)) or (isinstance(st, ast.Expr) and isinstance(st.value, ast.Constant)):
            continue
        else:
            return None
    return out or None


class _FieldRewriter(ast.NodeTransformer):
    def __init__(self, var: str, fields: set[str]) -> None:
        self.var, self.fields = var, fields

    def visit_Attribute(self, node: ast.Attribute) -> ast.AST:
        if isinstance(node.value, ast.Name) and node.value.id == self.var and node.attr in self.fields:
            return ast.copy_location(ast.Name(f"{self.var}__{node.attr}", node.ctx), node)
        self.generic_visit(node)
        return node


def _scalarize(fn: FunctionInfo, value_classes: dict[str, tuple[ClassInfo, list[tuple[str, ast.AST | None]]]], report: dict[str, object]) -> bool:
    """A local that only ever holds `K(...)` of a new value class K and is only used as `v.field` / `v.method(...)` is replaced by
    one local per field; K's methods are inlined at their call sites first."""
    changed = False
    for _round in range(4):
        stores: dict[str, list[ast.stmt]] = {}
        bad: set[str] = set()
        params = {a.arg for a in fn.node.args.posonlyargs + fn.node.args.args + fn.node.args.kwonlyargs}
        for n in walk_no_nested(fn.node):
            tgt = val = None
            if isinstance(n, ast.Assign) and len(n.targets) == 1 and isinstance(n.targets[0], ast.Name):
                tgt, val = n.targets[0].id, n.value
            elif isinstance(n, ast.AnnAssign) and isinstance(n.target, ast.Name) and n.value is not None:
                tgt, val = n.target.id, n.value
            if tgt is not None:
                if isinstance(val, ast.Call) and isinstance(val.func, ast.Name) and val.func.id in value_classes and not any(isinstance(a, ast.Starred) for a in val.args):
                    stores.setdefault(tgt, []).append(n)
                else:
                    bad.add(tgt)
            elif isinstance(n, (ast.For, ast.comprehension)) or isinstance(n, (ast.With,)):
                for x in ast.walk(n.target if not isinstance(n, ast.With) else ast.Tuple([i.optional_vars for i in n.items if i.optional_vars is not None], ast.Store())):
                    if isinstance(x, ast.Name):
                        bad.add(x.id)
        cands = {v: sts for v, sts in stores.items() if v not in bad and v not in params}
        if not cands:
            break
        progressed = False
        for v, sts in cands.items():
            kinds = {st.value.func.id for st in sts}  # type: ignore[union-attr]
            if len(kinds) != 1:
                continue
            ci, fields = value_classes[kinds.pop()]
            fnames = {f for f, _ in fields}
            # every read of v is v.<something>
            parents = {id(ch): p for p in ast.walk(fn.node) for ch in ast.iter_child_nodes(p)}
            loads = [x for x in ast.walk(fn.node) if isinstance(x, ast.Name) and x.id == v and isinstance(x.ctx, ast.Load)]
            if any(not (isinstance(parents.get(id(x)), ast.Attribute) and parents[id(x)].value is x) for x in loads):
                continue
            # inline K's methods called on v
            spell = {f"{v}.{m}": mi_ for m, mi_ in ci.methods.items() if not m.startswith("__") and not mi_.is_property() and not mi_.is_static()}
            if spell:
                inl = _Inliner(spell, None)
                fn.node.body = inl.body(fn.node.body)
                ast.fix_missing_locations(fn.node)
                if inl.gave_up:
                    continue
            attrs = {x.attr for x in ast.walk(fn.node) if isinstance(x, ast.Attribute) and isinstance(x.value, ast.Name) and x.value.id == v}
            loads = [x for x in ast.walk(fn.node) if isinstance(x, ast.Name) and x.id == v and isinstance(x.ctx, ast.Load)]
            parents = {id(ch): p for p in ast.walk(fn.node) for ch in ast.iter_child_nodes(p)}
            if not attrs <= fnames or any(not isinstance(parents.get(id(x)), ast.Attribute) for x in loads):
                continue
            # constructor calls -> one assignment per field
            ok = True
            new_for: dict[int, list[ast.stmt]] = {}
            for st in [x for x in walk_no_nested(fn.node) if isinstance(x, (ast.Assign, ast.AnnAssign))]:
                tg = st.targets[0] if isinstance(st, ast.Assign) else st.target
                if not (isinstance(tg, ast.Name) and tg.id == v):
                    continue
                call = st.value
                bound: dict[str, ast.AST] = {}
                for (f, _d), a in zip(fields, call.args):  # type: ignore[union-attr]
                    bound[f] = a
                for k in call.keywords:  # type: ignore[union-attr]
                    if k.arg is None:
                        ok = False
                    else:
                        bound[k.arg] = k.value
                seq: list[ast.stmt] = []
                for f, d in fields:
                    val = bound.get(f, d)
                    if val is None:
                        ok = False
                        break
                    seq.append(ast.copy_location(ast.Assign([ast.Name(f"{v}__{f}", ast.Store())], copy.deepcopy(val)), st))
                new_for[id(st)] = seq
            if not ok:
                continue

            def repl(body: list[ast.stmt]) -> list[ast.stmt]:
                out: list[ast.stmt] = []
                for st in body:
                    if id(st) in new_for:
                        out += new_for[id(st)]
                        continue
                    for fld in ("body", "orelse", "finalbody"):
                        seq = getattr(st, fld, None)
                        if isinstance(seq, list) and seq and isinstance(seq[0], ast.stmt):
                            setattr(st, fld, repl(seq))
                    if isinstance(st, ast.Try):
                        for h in st.handlers:
                            h.body = repl(h.body)
                    out.append(st)
                return out

            fn.node.body = repl(fn.node.body)
            fn.node = _FieldRewriter(v, fnames).visit(fn.node)
            ast.fix_missing_locations(fn.node)
            report.setdefault("scalarized_objects", []).append(f"{fn.where}: {v} ({ci.name})")  # type: ignore[union-attr]
            progressed = changed = True
        if not progressed:
            break
    return changed


# --------------------------------------------------------------------------- driver
def _positional(fn: ast.FunctionDef, sig: dict[str, list[str]], keep_kw: set[tuple[str, str | None]]) -> int:
    """keyword arguments that continue the positional ones in parameter order become positional (callee resolved by unique name), except the
    (callee, keyword) pairs in keep_kw"""
    own = {a.arg for a in fn.args.args + fn.args.kwonlyargs + fn.args.posonlyargs} | {n.id for n in ast.walk(fn) if isinstance(n, ast.Name) and isinstance(n.ctx, ast.Store)}
    done = 0
    for node in ast.walk(fn):
        if isinstance(node, ast.Call) and isinstance(node.func, ast.Name) and node.func.id in sig and node.func.id not in own and node.keywords \
                and not any(isinstance(a, ast.Starred) for a in node.args):
            params = sig[node.func.id]
            while node.keywords and node.keywords[0].arg is not None and len(node.args) < len(params) and params[len(node.args)] == node.keywords[0].arg \
                    and (node.func.id, node.keywords[0].arg) not in keep_kw:
                node.args.append(node.keywords.pop(0).value)
                done += 1
    return done


def _restore_equivalent(repo: Repo, census: dict, report: dict[str, object]) -> None:
    """a known function whose text changed but whose canonical form (canonical.py) is that of the confirmed function is the same
    function written differently: the rules read the confirmed spelling"""
    from .canonical import _inline_temps as inline_temps
    from .canonical import _shape_blocks as shape_blocks
    from .canonical import drop_new_log_statements, inline_new_temps
    from .canonical import canonical_hash, signatures_of, toward_reference

    sig = signatures_of({mi.relpath: mi.tree for mi in repo.modules.values()})
    # (callee, keyword) pairs some confirmed function writes: those stay keywords, the rules read them by name
    all_ref_kw: set[tuple[str, str | None]] = set()
    for k_mod in census.values():
        for src_ in k_mod.get("source", {}).values():
            for n_ in ast.walk(ast.parse(src_)):
                if isinstance(n_, ast.Call) and isinstance(n_.func, ast.Name):
                    all_ref_kw |= {(n_.func.id, kw_.arg) for kw_ in n_.keywords}
                elif isinstance(n_, ast.Call) and isinstance(n_.func, ast.Attribute):
                    all_ref_kw |= {("." + n_.func.attr, kw_.arg) for kw_ in n_.keywords}
    for mi in repo.modules.values():
        known = census.get(mi.name)
        if known is None:
            continue
        shas, sources = known.get("body_sha", {}), known.get("source", {})
        for fn in list(mi.functions.values()) + [m for c in mi.classes.values() for m in c.methods.values()]:
            src = sources.get(fn.qualname)
            if src is None and sources:
                # a new function: no reference spelling to respect; temporaries that only name the next statement's operand are substituted
                try:
                    empty = ast.parse("def _(): pass").body[0]
                    k_ = drop_new_log_statements(fn.node, empty)  # type: ignore[arg-type]
                    k_ += len(toward_reference(fn.node, empty, sig, all_ref_kw))  # type: ignore[arg-type]
                    if k_:
                        ast.fix_missing_locations(fn.node)
                        report.setdefault("respelled_new_function", []).append(fn.where)  # type: ignore[union-attr]
                except RecursionError:
                    pass
                continue
            if src is None or ast.dump(fn.node) == ast.dump(ast.parse(src).body[0]):  # unchanged
                continue
            try:
                ref = ast.parse(src).body[0]
                if isinstance(ref, ast.FunctionDef):
                    k_l = drop_new_log_statements(fn.node, ref)
                    if k_l:
                        report.setdefault("dropped_new_log_statements", []).append(f"{fn.where}: {k_l}")  # type: ignore[union-attr]
                if not isinstance(ref, ast.FunctionDef) or ast.dump(ast.Module(ref.decorator_list, [])) != ast.dump(ast.Module(fn.node.decorator_list, [])):
                    continue
                same = canonical_hash(fn.node, sig) == canonical_hash(ref, sig)
            except RecursionError:
                continue
            if not same:
                try:
                    # (explicit get-then-raise lookups first: the pair must not be split by the layout step)
                    inline_new_temps(fn.node, ref)
                    fn.node.body, k_g = _get_then_raise(fn.node.body)
                    if k_g:
                        report.setdefault("get_then_raise", []).append(f"{fn.where}: {k_g}")  # type: ignore[union-attr]
                    notes = toward_reference(fn.node, ref, sig)
                except RecursionError:
                    notes = []
                if notes:
                    report.setdefault("respelled_toward_reference", []).append(f"{fn.where}: {', '.join(sorted(set(notes)))}")  # type: ignore[union-attr]
                continue
            ast.increment_lineno(ref, fn.node.lineno - 1)
            parent = fn.cls.node if fn.cls is not None else mi.tree
            for i, st in enumerate(parent.body):
                if st is fn.node:
                    parent.body[i] = ref
            fn.node = ref
            report.setdefault("restored_equivalent", []).append(fn.where)  # type: ignore[union-attr]


def _inline_contextmanagers(mi: ModuleInfo, known_funcs: set[str], report: dict[str, object]) -> None:
    cms: dict[str, FunctionInfo] = {}
    for f in list(mi.functions.values()) + [m for c in mi.classes.values() for m in c.methods.values()]:
        if f.qualname in known_funcs:
            continue
        if not any((dotted(d) or "").split(".")[-1] == "contextmanager" for d in f.node.decorator_list):
            continue
        ys = [n for n in ast.walk(f.node) if isinstance(n, (ast.Yield, ast.YieldFrom))]
        ystm = [n for n in ast.walk(f.node) if isinstance(n, ast.Expr) and isinstance(n.value, ast.Yield) and n.value.value is None]
        if len(ys) == 1 and len(ystm) == 1 and not f.node.args.vararg and not f.node.args.kwarg:
            cms[f"self.{f.name}" if f.cls is not None else f.name] = f
    if not cms:
        return
    count = [0]

    def expand(w: ast.With, h: FunctionInfo) -> list[ast.stmt] | None:
        call = w.items[0].context_expr
        params = [a.arg for a in h.node.args.args]
        if h.cls is not None:
            params = params[1:]
        if len(call.args) + len(call.keywords) != len(params) or any(k.arg not in params for k in call.keywords):  # type: ignore[attr-defined]
            return None
        bound = dict(zip(params, call.args))  # type: ignore[attr-defined]
        bound.update({k.arg: k.value for k in call.keywords})  # type: ignore[attr-defined]
        if not all(isinstance(v, (ast.Name, ast.Constant, ast.Attribute)) for v in bound.values()):
            return None
        count[0] += 1
        tag = f"__{h.name.strip('_')}{count[0]}"
        locals_ = {n.id for n in ast.walk(h.node) if isinstance(n, ast.Name) and isinstance(n.ctx, ast.Store)}
        body = [copy.deepcopy(b) for b in h.node.body if not (isinstance(b, ast.Expr) and isinstance(b.value, ast.Constant))]

        class _S(ast.NodeTransformer):
            def visit_Name(self, n: ast.Name) -> ast.AST:
                if n.id in bound and isinstance(n.ctx, ast.Load):
                    return copy.deepcopy(bound[n.id])
                if n.id in locals_:
                    n.id = n.id + tag
                return n

        body = [_S().visit(b) for b in body]

        def put(block: list[ast.stmt]) -> list[ast.stmt]:
            out: list[ast.stmt] = []
            for b in block:
                if isinstance(b, ast.Expr) and isinstance(b.value, ast.Yield):
                    out.extend(w.body)
                    continue
                for f_ in ("body", "orelse", "finalbody"):
                    v = getattr(b, f_, None)
                    if isinstance(v, list) and v and isinstance(v[0], ast.stmt):
                        setattr(b, f_, put(v))
                if isinstance(b, ast.Try):
                    for hd in b.handlers:
                        hd.body = put(hd.body)
                out.append(b)
            return out

        return put(body)

    def visit(block: list[ast.stmt], fn: FunctionInfo) -> list[ast.stmt]:
        out: list[ast.stmt] = []
        for st in block:
            for f_ in ("body", "orelse", "finalbody"):
                v = getattr(st, f_, None)
                if isinstance(v, list) and v and isinstance(v[0], ast.stmt):
                    setattr(st, f_, visit(v, fn))
            if isinstance(st, ast.Try):
                for hd in st.handlers:
                    hd.body = visit(hd.body, fn)
            if isinstance(st, ast.With) and len(st.items) == 1 and st.items[0].optional_vars is None and isinstance(st.items[0].context_expr, ast.Call):
                key = dotted(st.items[0].context_expr.func) or ""
                h = cms.get(key)
                if h is not None and h is not fn and (h.cls is None or h.cls is fn.cls):
                    new = expand(st, h)
                    if new is not None:
                        for o in new:
                            ast.copy_location(o, st)
                            ast.fix_missing_locations(o)
                        out.extend(new)
                        report.setdefault("inlined_helpers", []).append(f"{h.qualname} (context manager) -> {fn.qualname}")  # type: ignore[union-attr]
                        continue
            out.append(st)
        return out

    for fn in list(mi.functions.values()) + [m for c in mi.classes.values() for m in c.methods.values()]:
        if fn in cms.values():
            continue
        fn.node.body = visit(fn.node.body, fn)
    # a context manager nothing refers to any more is dropped
    for key, h in cms.items():
        still = any(isinstance(n, ast.Attribute) and n.attr == h.name or (isinstance(n, ast.Name) and n.id == h.name)
                    for f in list(mi.functions.values()) + [m for c in mi.classes.values() for m in c.methods.values()] if f is not h for n in ast.walk(f.node))
        if not still:
            if h.cls is not None:
                h.cls.methods.pop(h.name, None)
            else:
                mi.functions.pop(h.name, None)


def _hoist_walrus(block: list[ast.stmt]) -> tuple[list[ast.stmt], int]:
    """if (x := E) <rest of test>: ...   ->   x = E ; if x <rest of test>: ...      when E is what the test evaluates first"""
    from .canonical import _evaluated_before

    out: list[ast.stmt] = []
    n = 0
    for st in block:
        for f in ("body", "orelse", "finalbody"):
            v = getattr(st, f, None)
            if isinstance(v, list) and v and isinstance(v[0], ast.stmt):
                nv, k = _hoist_walrus(v)
                setattr(st, f, nv)
                n += k
        if isinstance(st, ast.Try):
            for h in st.handlers:
                h.body, k = _hoist_walrus(h.body)
                n += k
        if isinstance(st, ast.If) and isinstance(st.test, ast.BoolOp) and isinstance(st.test.op, ast.Or) and not st.orelse and st.body \
                and isinstance(st.body[-1], (ast.Return, ast.Raise, ast.Continue, ast.Break)) \
                and any(isinstance(w, ast.NamedExpr) for w in ast.walk(st.test.values[-1])) \
                and not any(isinstance(w, ast.NamedExpr) for v_ in st.test.values[:-1] for w in ast.walk(v_)):
            # if A or <test with a walrus>: leave   ->   if A: leave ; if <test with a walrus>: leave     (the body leaves the block either way)
            first = ast.copy_location(ast.If(st.test.values[0] if len(st.test.values) == 2 else ast.BoolOp(ast.Or(), st.test.values[:-1]), copy.deepcopy(st.body), []), st)
            st.test = st.test.values[-1]
            out.append(ast.fix_missing_locations(first))
            n += 1
        if isinstance(st, ast.If):
            ws = [w for w in ast.walk(st.test) if isinstance(w, ast.NamedExpr)]
            if len(ws) == 1 and isinstance(ws[0].target, ast.Name):
                w = ws[0]
                # position: everything evaluated before the walrus inside the test must be effect-free
                # decide on a copy: the test is only rewritten when the hoist is valid
                trial = copy.deepcopy(st.test)
                w2 = [x for x in ast.walk(trial) if isinstance(x, ast.NamedExpr)][0]
                marker = ast.Name(w.target.id, ast.Load())
                trial = _replace_identity(trial, w2, marker)
                before = _evaluated_before(trial, marker)
                if before is not None and all(not any(isinstance(x, (ast.Call, ast.NamedExpr)) for x in ast.walk(b)) for b in before):
                    out.append(ast.copy_location(ast.Assign([ast.Name(w.target.id, ast.Store())], w.value), st))
                    st.test = trial
                    n += 1
        out.append(st)
    return out, n


def _replace_identity(root: ast.expr, old: ast.AST, new: ast.AST) -> ast.expr:
    if root is old:
        return new  # type: ignore[return-value]
    for parent in ast.walk(root):
        for field, value in ast.iter_fields(parent):
            if value is old:
                setattr(parent, field, new)
                return root
            if isinstance(value, list):
                for i, v in enumerate(value):
                    if v is old:
                        value[i] = new
                        return root
    return root


class _ReplaceNode(ast.NodeTransformer):
    def __init__(self, old: ast.AST, new: ast.AST) -> None:
        self.old, self.new = old, new


def _dispatch_to_chain(block: list[ast.stmt], fn: ast.FunctionDef) -> tuple[list[ast.stmt], int]:
    """t = {k1: v1, ..}.get(X) ; if t is None: A else: B(t)    ->    __key = X ; if __key == k1: B(v1) elif ... else: A
    (literal keys; t bound once and read only inside B; the dictionary display is only used for this lookup)"""
    out: list[ast.stmt] = []
    n = 0
    i = 0
    while i < len(block):
        st = block[i]
        for f in ("body", "orelse", "finalbody"):
            v = getattr(st, f, None)
            if isinstance(v, list) and v and isinstance(v[0], ast.stmt):
                nv, k = _dispatch_to_chain(v, fn)
                setattr(st, f, nv)
                n += k
        nxt = block[i + 1] if i + 1 < len(block) else None
        if (isinstance(st, ast.Assign) and len(st.targets) == 1 and isinstance(st.targets[0], ast.Name) and isinstance(st.value, ast.Call)
                and isinstance(st.value.func, ast.Attribute) and st.value.func.attr == "get" and isinstance(st.value.func.value, ast.Dict) and len(st.value.args) == 1
                and st.value.func.value.keys and all(isinstance(k_, ast.Constant) for k_ in st.value.func.value.keys) and isinstance(nxt, ast.If)):
            t = st.targets[0].id
            d = st.value.func.value
            test = unparse(nxt.test)
            stores = sum(1 for x in ast.walk(fn) if isinstance(x, ast.Name) and x.id == t and isinstance(x.ctx, ast.Store))
            if stores == 1 and test in (f"{t} is None", f"{t} is not None", t, f"not {t}"):
                miss, hit = (nxt.body, nxt.orelse) if test in (f"{t} is None", f"not {t}") else (nxt.orelse, nxt.body)
                used_outside = sum(1 for x in ast.walk(fn) if isinstance(x, ast.Name) and x.id == t and isinstance(x.ctx, ast.Load)) != \
                    sum(1 for b in hit for x in ast.walk(b) if isinstance(x, ast.Name) and x.id == t and isinstance(x.ctx, ast.Load)) + 1
                if not used_outside:
                    key = f"__key_{t}"
                    pre = ast.Assign([ast.Name(key, ast.Store())], st.value.args[0])
                    tail: list[ast.stmt] = [b for b in miss if not isinstance(b, ast.Pass)]
                    for k_, v_ in reversed(list(zip(d.keys, d.values))):
                        class _S(ast.NodeTransformer):
                            def visit_Name(self, x: ast.Name) -> ast.AST:
                                return copy.deepcopy(v_) if x.id == t and isinstance(x.ctx, ast.Load) else x  # noqa: B023

                        arm = [_S().visit(copy.deepcopy(b)) for b in hit] or [ast.Pass()]
                        tail = [ast.If(ast.Compare(ast.Name(key, ast.Load()), [ast.Eq()], [k_]), arm, tail)]
                    for o in [pre] + tail:
                        ast.copy_location(o, st)
                        ast.fix_missing_locations(o)
                    out += [pre] + tail
                    n += 1
                    i += 2
                    continue
        out.append(st)
        i += 1
    return out, n


class _MatchToIf(ast.NodeTransformer):
    """`match X: case <literal> | <literal>: ... case _: ...` (literal / dotted-name / None patterns, optional guards, no captures) is the
    if / elif / else chain over `X == literal`; X must be call-free, or a plain name is bound to it first"""

    def __init__(self) -> None:
        self.done = 0
        self.n = 0

    def _test(self, subj: ast.expr, pat: ast.pattern) -> ast.expr | None:
        if isinstance(pat, ast.MatchValue) and isinstance(pat.value, (ast.Constant, ast.Attribute)):
            return ast.Compare(copy.deepcopy(subj), [ast.Eq()], [pat.value])
        if isinstance(pat, ast.MatchSingleton):
            return ast.Compare(copy.deepcopy(subj), [ast.Is()], [ast.Constant(pat.value)])
        if isinstance(pat, ast.MatchOr):
            parts = [self._test(subj, p_) for p_ in pat.patterns]
            if any(p_ is None for p_ in parts):
                return None
            if all(isinstance(p_, ast.MatchValue) and isinstance(p_.value, ast.Constant) for p_ in pat.patterns):
                return ast.Compare(copy.deepcopy(subj), [ast.In()], [ast.Tuple([p_.value for p_ in pat.patterns], ast.Load())])  # type: ignore[attr-defined]
            return ast.BoolOp(ast.Or(), parts)  # type: ignore[arg-type]
        return None

    def visit_Match(self, node: ast.Match) -> Any:
        self.generic_visit(node)
        pre: list[ast.stmt] = []
        subj = node.subject
        if any(isinstance(x, (ast.Call, ast.NamedExpr, ast.Await)) for x in ast.walk(subj)):
            self.n += 1
            name = f"__subject{self.n}"
            pre = [ast.Assign([ast.Name(name, ast.Store())], subj)]
            subj = ast.Name(name, ast.Load())
        arms: list[tuple[ast.expr | None, list[ast.stmt]]] = []
        for case in node.cases:
            wildcard = isinstance(case.pattern, ast.MatchAs) and case.pattern.pattern is None and case.pattern.name is None
            t = None if wildcard else self._test(subj, case.pattern)
            if t is None and not wildcard:
                return node  # a capturing / structural pattern: left as it is
            if case.guard is not None:
                t = case.guard if t is None else ast.BoolOp(ast.And(), [t, case.guard])
            arms.append((t, case.body))
            if t is None:
                break  # nothing after an unguarded wildcard is reachable
        tail: list[ast.stmt] = []
        for t, body in reversed(arms):
            tail = body if t is None else [ast.If(t, body, tail)]
        self.done += 1
        out = pre + (tail or [ast.Pass()])
        for o in out:
            ast.copy_location(o, node)
            ast.fix_missing_locations(o)
        return out


def _bound_in(fn: ast.FunctionDef) -> set[str]:
    """parameters and names the function binds itself: a module constant of the same name is shadowed there"""
    a = fn.args
    return {x.arg for x in a.args + a.kwonlyargs + a.posonlyargs} | ({a.vararg.arg} if a.vararg else set()) | ({a.kwarg.arg} if a.kwarg else set()) | \
        {n.id for n in ast.walk(fn) if isinstance(n, ast.Name) and isinstance(n.ctx, ast.Store)}


# (conditional expressions, starred displays, zip / enumerate / reversed are spellings the rules read; they are not on the list)
_NOVEL_NODES = (ast.NamedExpr, ast.Match, ast.ListComp, ast.SetComp, ast.DictComp, ast.GeneratorExp, ast.Lambda, ast.Yield, ast.YieldFrom)
_NOVEL_CALLS = {"next", "any", "all", "divmod", "map", "filter", "iter", "partial", "functools.partial", "dict.fromkeys", "contextmanager"}
_NOVEL_METHODS = {"to_bytes", "from_bytes", "fromkeys"}


def _pieces(f: ast.AST) -> list[str]:
    out = []
    for n in ast.walk(f):
        if isinstance(n, (ast.Assign, ast.AugAssign, ast.AnnAssign, ast.Expr, ast.Return, ast.Raise)):
            if isinstance(n, ast.Expr) and isinstance(n.value, ast.Constant):
                continue
            out.append(unparse(n))
        elif isinstance(n, (ast.If, ast.While)):
            out.append(unparse(n.test))
        elif isinstance(n, ast.For):
            out.append(unparse(n.target) + " in " + unparse(n.iter))
    return out


def _syntax_kinds(fn: ast.AST) -> set[str]:
    """the kinds of construct in a function that the rule extractors treat specially: expression forms and helper calls"""
    out: set[str] = set()
    for n in ast.walk(fn):
        if isinstance(n, _NOVEL_NODES):
            out.add(type(n).__name__)
        elif isinstance(n, ast.Call):
            d = dotted(n.func) or ""
            if d in _NOVEL_CALLS:
                out.add(f"{d}()")
            elif isinstance(n.func, ast.Attribute) and n.func.attr in _NOVEL_METHODS:
                out.add(f".{n.func.attr}()")
    return out


def _specialise_equalities(fn: ast.FunctionDef) -> int:
    """if X == c: BODY   ->   BODY with the loads of X replaced by c, when X is a call-free name / attribute chain, c a str or int literal, and
    BODY stores to none of the names X is built from"""
    done = 0
    for st in [n for n in ast.walk(fn) if isinstance(n, ast.If)]:
        t = st.test
        if not (isinstance(t, ast.Compare) and len(t.ops) == 1 and isinstance(t.ops[0], ast.Eq) and isinstance(t.comparators[0], ast.Constant)
                and type(t.comparators[0].value) in (str, int) and isinstance(t.left, (ast.Name, ast.Attribute)) and dotted(t.left)):
            continue
        text = unparse(t.left)
        roots = {n.id for n in ast.walk(t.left) if isinstance(n, ast.Name)}
        if any(isinstance(x, ast.Name) and isinstance(x.ctx, (ast.Store, ast.Del)) and x.id in roots for b in st.body for x in ast.walk(b)):
            continue
        if any(isinstance(x, ast.Attribute) and isinstance(x.ctx, (ast.Store, ast.Del)) and unparse(x) == text for b in st.body for x in ast.walk(b)):
            continue
        const = t.comparators[0]

        class _S(ast.NodeTransformer):
            def visit_Attribute(self, node: ast.Attribute) -> ast.AST:
                nonlocal done
                if isinstance(node.ctx, ast.Load) and unparse(node) == text:
                    done += 1
                    return ast.copy_location(ast.Constant(const.value), node)
                self.generic_visit(node)
                return node

            def visit_Name(self, node: ast.Name) -> ast.AST:
                nonlocal done
                if isinstance(node.ctx, ast.Load) and node.id == text:
                    done += 1
                    return ast.copy_location(ast.Constant(const.value), node)
                return node

            def visit_FunctionDef(self, node: ast.FunctionDef) -> ast.AST:
                return node

            def visit_Lambda(self, node: ast.Lambda) -> ast.AST:
                return node

        st.body = [_S().visit(b) for b in st.body]
    return done


_READ_METHODS = {"get", "items", "keys", "values", "index", "count", "copy"}


def _read_only_global(mi: ModuleInfo, name: str, repo: "Repo | None") -> bool:
    """every mention of the module-level name is a read that cannot change the object: `x in N`, `N[k]` (load), `N.get(..)` / `.items()` ...,
    `for _ in N`, `len(N)`, `sorted(N)`; it is not imported elsewhere, passed on, returned, aliased or stored into"""
    if repo is not None and any(name in om.imports and om.imports[name][0] == mi.name for om in repo.modules.values() if om is not mi):
        return False
    parents: dict[int, ast.AST] = {}
    for p_ in ast.walk(mi.tree):
        for c_ in ast.iter_child_nodes(p_):
            parents[id(c_)] = p_
    uses = 0
    for n in ast.walk(mi.tree):
        if not (isinstance(n, ast.Name) and n.id == name):
            continue
        par = parents.get(id(n))
        if isinstance(n.ctx, ast.Store):
            if isinstance(par, (ast.Assign, ast.AnnAssign)) and parents.get(id(par)) is mi.tree:
                continue  # its one module-level binding (checked by the caller)
            return False
        uses += 1
        if isinstance(par, ast.Compare) and len(par.ops) == 1 and isinstance(par.ops[0], (ast.In, ast.NotIn)) and par.comparators[0] is n:
            continue
        if isinstance(par, ast.Subscript) and par.value is n and isinstance(par.ctx, ast.Load):
            continue
        if isinstance(par, ast.Attribute) and par.value is n and par.attr in _READ_METHODS and isinstance(parents.get(id(par)), ast.Call):
            continue
        if isinstance(par, (ast.For, ast.comprehension)) and par.iter is n:
            continue
        if isinstance(par, ast.Call) and isinstance(par.func, ast.Name) and par.func.id in ("len", "sorted", "tuple", "frozenset", "set", "list", "dict", "any", "all", "enumerate", "reversed") and n in par.args:
            continue
        return False
    return uses > 0


def _new_constants(mi: ModuleInfo, known_globals: set[str], repo: "Repo | None" = None) -> dict[str, ast.AST]:
    consts: dict[str, ast.AST] = {}
    for _round in range(3):
        for name, st in mi.assigns_all:
            if name in known_globals or name in mi.functions or name in mi.classes or name in consts:
                continue
            if sum(1 for n, _ in mi.assigns_all if n == name) != 1:
                continue
            val = st.value  # type: ignore[attr-defined]
            if consts:
                val = _ConstProp(consts).visit(copy.deepcopy(val))
            v = _const_value(val, known_globals | set(mi.imports))
            if v is None and isinstance(val, (ast.List, ast.Set)) and val.elts and all(isinstance(e, ast.Constant) for e in val.elts) and _read_only_global(mi, name, repo):
                v = ast.Tuple(list(val.elts), ast.Load())  # a list / set nobody can change is that tuple of literals
            if v is None and isinstance(val, ast.Dict) and val.keys and all(isinstance(k_, ast.Constant) for k_ in val.keys) \
                    and all(_const_value(x_, known_globals | set(mi.imports)) is not None or (isinstance(x_, ast.Attribute) and isinstance(x_.value, ast.Name)
                            and x_.value.id[:1].isupper() and x_.value.id in (known_globals | set(mi.imports))) for x_ in val.values) and _read_only_global(mi, name, repo):
                v = val  # a lookup table nobody can change reads as its literal
            if v is not None:
                consts[name] = v
    return consts


def normalize_repo(repo: Repo) -> dict[str, object]:
    census = _load_census().get("modules", {})
    report: dict[str, object] = {"inlined_helpers": [], "kept_helpers": [], "propagated_constants": [], "gave_up": []}
    # `match` statements over literals are if-chains
    for mi in repo.modules.values():
        for fn in list(mi.functions.values()) + [m for c in mi.classes.values() for m in c.methods.values()]:
            if any(isinstance(n, ast.Match) for n in ast.walk(fn.node)):
                mt = _MatchToIf()
                fn.node = mt.visit(fn.node)
                if mt.done:
                    report.setdefault("match_to_if", []).append(f"{fn.where}: {mt.done}")  # type: ignore[union-attr]
    for mi in repo.modules.values():
        for fn in list(mi.functions.values()) + [m for c in mi.classes.values() for m in c.methods.values()]:
            if any(isinstance(n, ast.NamedExpr) for n in ast.walk(fn.node)):
                fn.node.body, k_w = _hoist_walrus(fn.node.body)
                if k_w:
                    ast.fix_missing_locations(fn.node)
                    report.setdefault("walrus_hoisted", []).append(f"{fn.where}: {k_w}")  # type: ignore[union-attr]
    # new module-level constants are folded into the functions first: a literal that was given a name is still that literal
    for mi in repo.modules.values():
        known = census.get(mi.name)
        if known is None:
            continue
        consts0 = _new_constants(mi, set(known.get("globals", [])), repo)
        if consts0:
            for fn in list(mi.functions.values()) + [m for c in mi.classes.values() for m in c.methods.values()]:
                cp0 = _ConstProp({k: v for k, v in consts0.items() if k not in _bound_in(fn.node)})
                fn.node = cp0.visit(fn.node)
                if cp0.hits:
                    report["propagated_constants"].append(f"{fn.where}: {cp0.hits}")  # type: ignore[union-attr]
    # new class-level constants (`MAX_RECORD_SIZE = 0xFFFF` in the class body, read as self.MAX_RECORD_SIZE) are the literal too, when no
    # statement of the package stores an attribute of that name and no confirmed function mentions it
    stored_attrs = {n.attr for om in repo.modules.values() for n in ast.walk(om.tree) if isinstance(n, ast.Attribute) and isinstance(n.ctx, (ast.Store, ast.Del))}
    for mi in repo.modules.values():
        known = census.get(mi.name)
        if known is None:
            continue
        known_text = "\n".join(known.get("source", {}).values())
        for ci in mi.classes.values():
            cconsts: dict[str, ast.AST] = {}
            for st in ci.node.body:
                tgt = st.targets[0] if isinstance(st, ast.Assign) and len(st.targets) == 1 else (st.target if isinstance(st, ast.AnnAssign) and st.value is not None else None)
                if isinstance(tgt, ast.Name) and tgt.id not in stored_attrs and tgt.id.isupper() and tgt.id not in known_text:
                    v = _const_value(st.value, set(known.get("globals", [])) | set(mi.imports))  # type: ignore[union-attr]
                    if v is not None:
                        cconsts[tgt.id] = v
            if not cconsts:
                continue

            class _CC(ast.NodeTransformer):
                def __init__(self) -> None:
                    self.hits = 0

                def visit_Attribute(self, node: ast.Attribute) -> ast.AST:
                    self.generic_visit(node)
                    if isinstance(node.ctx, ast.Load) and node.attr in cconsts and isinstance(node.value, ast.Name) and node.value.id in ("self", "cls", ci.name):  # noqa: B023
                        self.hits += 1
                        return ast.copy_location(copy.deepcopy(cconsts[node.attr]), node)  # noqa: B023
                    return node

            for m in ci.methods.values():
                cc = _CC()
                m.node = cc.visit(m.node)
                if cc.hits:
                    report["propagated_constants"].append(f"{m.where}: {cc.hits} (class constant)")  # type: ignore[union-attr]
    for mi in repo.modules.values():
        if census.get(mi.name) is None:
            continue
        for fn in list(mi.functions.values()) + [m for c in mi.classes.values() for m in c.methods.values()]:
            if any(isinstance(n, ast.Dict) for n in ast.walk(fn.node)):
                fn.node.body, k_d = _dispatch_to_chain(fn.node.body, fn.node)
                if k_d:
                    report.setdefault("dispatch_table_to_chain", []).append(f"{fn.where}: {k_d}")  # type: ignore[union-attr]
    _restore_equivalent(repo, census, report)
    for mi in repo.modules.values():
        known = census.get(mi.name)
        if known is None:
            continue  # a wholly new module: nothing to fold back
        known_funcs = set(known.get("functions", []))
        known_globals = set(known.get("globals", []))
        # ---- a known function that was merely renamed (same body, old name gone) gets its old name back
        present = {f.qualname for f in list(mi.functions.values()) + [m for c in mi.classes.values() for m in c.methods.values()]}
        missing = known_funcs - present
        shas = known.get("body_sha", {})
        if missing:
            for fn in list(mi.functions.values()) + [m for c in mi.classes.values() for m in c.methods.values()]:
                if fn.qualname in known_funcs:
                    continue
                cands = [o for o in missing if shas.get(o) == _body_sha(fn) and ("." in o) == (fn.cls is not None) and (fn.cls is None or o.split(".")[0] == fn.cls.name)]
                if not cands:
                    # the same function written differently (canonical form) under a new name
                    from .canonical import canonical_hash, signatures_of

                    sig_ = signatures_of({m_.relpath: m_.tree for m_ in repo.modules.values()})
                    for o in sorted(missing):
                        src_ = known.get("source", {}).get(o)
                        if src_ is None or ("." in o) != (fn.cls is not None) or (fn.cls is not None and o.split(".")[0] != fn.cls.name):
                            continue
                        ref_ = ast.parse(src_).body[0]
                        ref_.name = fn.node.name  # type: ignore[attr-defined]
                        try:
                            if canonical_hash(fn.node, sig_) == canonical_hash(ref_, sig_):  # type: ignore[arg-type]
                                cands.append(o)
                        except RecursionError:
                            pass
                if len(cands) == 1:
                    old = cands[0].split(".")[-1]
                    _rename_everywhere(repo, mi, fn, old)
                    missing.discard(cands[0])
                    report.setdefault("renamed_back", []).append(f"{mi.relpath}:{fn.qualname}")  # type: ignore[union-attr]
        if report.get("renamed_back"):
            _restore_equivalent(repo, {mi.name: known}, report)
        # ---- new constants
        consts = _new_constants(mi, known_globals, repo)
        # ---- new @contextmanager helpers with one `yield`: `with helper(args): BODY` is the helper's body with BODY in place of the yield
        _inline_contextmanagers(mi, known_funcs, report)
        # ---- new helpers
        helpers_mod = {f.name: f for f in mi.functions.values() if f.qualname not in known_funcs and _plain(f)}
        all_fns: list[FunctionInfo] = list(mi.functions.values()) + [m for c in mi.classes.values() for m in c.methods.values()]
        for fn in all_fns:
            spellings: dict[str, FunctionInfo] = dict(helpers_mod)
            if fn.cls is not None:
                # new helper methods inherited from a base class in the same module (a new mixin / common base)
                for base in repo.mro(fn.cls)[1:]:
                    if base.module is not mi:
                        continue
                    for m in base.methods.values():
                        if m.qualname not in known_funcs and m.name != "__init__" and not m.name.startswith("__") and _plain(m) and m.name not in fn.cls.methods \
                                and not any(m.name in c.methods for c in repo.mro(fn.cls)[1:repo.mro(fn.cls).index(base)]):
                            spellings[f"self.{m.name}"] = m
                for m in fn.cls.methods.values():
                    if m.qualname not in known_funcs and m is not fn and m.name != "__init__" and _plain(m):
                        spellings[f"self.{m.name}"] = m
                        spellings[f"cls.{m.name}"] = m
                        spellings[f"{fn.cls.name}.{m.name}"] = m
            for cname, ci in mi.classes.items():
                for m in ci.methods.values():
                    if m.qualname not in known_funcs and m.is_static() and _plain(m):
                        spellings[f"{cname}.{m.name}"] = m
            # new plain methods of the class a parameter is annotated with: `s.skip_to_line_end()` with `s: Scanner`
            for a_ in fn.node.args.args + fn.node.args.kwonlyargs:
                ann = a_.annotation
                cname_ = ann.id if isinstance(ann, ast.Name) else (ann.value.strip("'\"") if isinstance(ann, ast.Constant) and isinstance(ann.value, str) else None)
                if not cname_ or a_.arg in ("self", "cls"):
                    continue
                owners = [(om, om.classes[cname_]) for om in repo.modules.values() if cname_ in om.classes]
                if len(owners) != 1:
                    continue
                om_, ci_ = owners[0]
                known_o = set((census.get(om_.name) or {}).get("functions", []))
                if not known_o:
                    continue
                if any(isinstance(n_, ast.Name) and n_.id == a_.arg and isinstance(n_.ctx, ast.Store) for n_ in ast.walk(fn.node)):
                    continue  # the parameter is rebound: not necessarily that object any more
                import builtins as _bi

                here = set(mi.assigns) | set(mi.functions) | set(mi.classes) | set(mi.imports) | set(dir(_bi))
                for m in ci_.methods.values():
                    if m.qualname not in known_o and not m.name.startswith("__") and _plain(m) and not m.is_static() and not m.is_property() \
                            and not any(m.name in sc.methods for sc in repo.all_classes() if sc is not ci_ and ci_ in repo.mro(sc)):
                        # its body moves into this module: every global it reads must mean the same thing here
                        free = {n_.id for n_ in ast.walk(m.node) if isinstance(n_, ast.Name) and isinstance(n_.ctx, ast.Load)} - _bound_in(m.node)
                        if om_ is mi or all(g_ in here and (g_ in dir(_bi) or mi.imports.get(g_) == om_.imports.get(g_) and g_ in om_.imports) for g_ in free):
                            spellings[f"{a_.arg}.{m.name}"] = m
            spellings = {k: v for k, v in spellings.items() if v is not fn}
            if consts:
                cp = _ConstProp({k: v for k, v in consts.items() if k not in _bound_in(fn.node)})
                fn.node = cp.visit(fn.node)
                if cp.hits:
                    report["propagated_constants"].append(f"{fn.where}: {cp.hits}")  # type: ignore[union-attr]
            sf = _StringFold()
            fn.node = sf.visit(fn.node)
            fn.node.body, n_gr = _get_then_raise(fn.node.body)
            if n_gr:
                ast.fix_missing_locations(fn.node)
                report.setdefault("get_then_raise", []).append(f"{fn.where}: {n_gr}")  # type: ignore[union-attr]
            un = _SearchLoopUnroller()
            fn.node = un.visit(fn.node)
            if un.done:
                ast.fix_missing_locations(fn.node)
                report.setdefault("unrolled_search_loops", []).append(f"{fn.where}: {un.done}")  # type: ignore[union-attr]
            if spellings:
                _COUNTER[0] = 0
                inl = _Inliner(spellings, fn.cls.name if fn.cls else None)
                fn.node.body = inl.body(fn.node.body)
                ast.fix_missing_locations(fn.node)
                for h in inl.done:
                    report["inlined_helpers"].append(f"{h} -> {fn.qualname}")  # type: ignore[union-attr]
                for g in inl.gave_up:
                    report["gave_up"].append(f"{fn.where}: {g}")  # type: ignore[union-attr]
        # ---- locals holding objects of new value classes (dataclass / NamedTuple)
        known_classes = set(known.get("classes", []))
        value_classes = {}
        for cname, ci in mi.classes.items():
            if cname not in known_classes:
                fl = _value_class_fields(ci)
                if fl is not None:
                    value_classes[cname] = (ci, fl)
        if value_classes:
            for fn in all_fns:
                if fn.cls is not None and fn.cls.name in value_classes:
                    continue
                _scalarize(fn, value_classes, report)
        # class-level constant propagation is not attempted
        # ---- drop helpers that are no longer referenced
        src_names: dict[str, int] = {}
        for fn in all_fns:
            for n in ast.walk(fn.node):
                if isinstance(n, ast.Name):
                    src_names[n.id] = src_names.get(n.id, 0) + 1
                if isinstance(n, ast.Attribute):
                    src_names[n.attr] = src_names.get(n.attr, 0) + 1
        for name, h in list(helpers_mod.items()):
            refs = sum(1 for fn in all_fns if fn is not h for n in ast.walk(fn.node) if (isinstance(n, ast.Name) and n.id == name))
            # module-level code may hold on to the helper (`cached = lru_cache()(helper)`, a dispatch table, ...)
            refs += sum(1 for st in mi.tree.body if not isinstance(st, (ast.FunctionDef, ast.ClassDef)) for n in ast.walk(st) if isinstance(n, ast.Name) and n.id == name)
            if refs == 0 and name not in mi.imports:
                # still referenced from other modules?
                used_elsewhere = any(name in om.imports and om.imports[name][0] == mi.name for om in repo.modules.values())
                if not used_elsewhere:
                    del mi.functions[name]
                    continue
            report["kept_helpers"].append(f"{mi.relpath}:{name}")  # type: ignore[union-attr]
        for ci in mi.classes.values():
            for mname, m in list(ci.methods.items()):
                if m.qualname in known_funcs or mname.startswith("__"):
                    continue
                refs = sum(1 for fn in all_fns if fn is not m for n in ast.walk(fn.node) if isinstance(n, ast.Attribute) and n.attr == mname)
                ext = any(isinstance(n, ast.Attribute) and n.attr == mname for om in repo.modules.values() if om is not mi for n in ast.walk(om.tree))
                if refs == 0 and not ext:
                    del ci.methods[mname]
                else:
                    report["kept_helpers"].append(f"{mi.relpath}:{ci.name}.{mname}")  # type: ignore[union-attr]
        if value_classes:
            # a value class nothing refers to any more is dropped with its methods
            remaining = list(mi.functions.values()) + [m for c in mi.classes.values() for m in c.methods.values()]
            for cname in list(value_classes):
                used = any(isinstance(n, ast.Name) and n.id == cname for fn in remaining if not (fn.cls is not None and fn.cls.name == cname) for n in ast.walk(fn.node))
                used = used or any(cname in om.imports and om.imports[cname][0] == mi.name for om in repo.modules.values())
                if not used and cname in mi.classes:
                    del mi.classes[cname]
    # ---- once helpers are folded in, a lookup table that was only handed to a helper is read in place: propagate it and unfold the dispatch
    for mi in repo.modules.values():
        known = census.get(mi.name)
        if known is None:
            continue
        known_globals_ = set(known.get("globals", []))
        fns_ = list(mi.functions.values()) + [m for c in mi.classes.values() for m in c.methods.values()]
        late: dict[str, ast.AST] = {}
        for name, st in mi.assigns_all:
            val = getattr(st, "value", None)
            if name in known_globals_ or not isinstance(val, ast.Dict) or sum(1 for n_, _ in mi.assigns_all if n_ == name) != 1:
                continue
            if not (val.keys and all(isinstance(k_, ast.Constant) for k_ in val.keys)):
                continue
            names_ok_ = known_globals_ | set(mi.imports)
            if not all(_const_value(x_, names_ok_) is not None or (isinstance(x_, ast.Attribute) and isinstance(x_.value, ast.Name) and x_.value.id[:1].isupper()
                                                                      and x_.value.id in names_ok_) for x_ in val.values):
                continue  # only tables of literals / enum members are values that can be written in place
            if any(name in om.imports and om.imports[name][0] == mi.name for om in repo.modules.values() if om is not mi):
                continue
            ok_, uses_ = True, 0
            for fn in fns_:
                parents: dict[int, ast.AST] = {}
                for p_ in ast.walk(fn.node):
                    for c_ in ast.iter_child_nodes(p_):
                        parents[id(c_)] = p_
                for n in ast.walk(fn.node):
                    if isinstance(n, ast.Name) and n.id == name:
                        par = parents.get(id(n))
                        uses_ += 1
                        if not (isinstance(n.ctx, ast.Load) and ((isinstance(par, ast.Attribute) and par.attr in _READ_METHODS and isinstance(parents.get(id(par)), ast.Call))
                                                                 or (isinstance(par, ast.Subscript) and par.value is n and isinstance(par.ctx, ast.Load))
                                                                 or (isinstance(par, ast.Compare) and par.comparators and par.comparators[0] is n))):
                            ok_ = False
            module_uses = sum(1 for n in ast.walk(mi.tree) if isinstance(n, ast.Name) and n.id == name and not any(n is x for f_ in mi.tree.body if isinstance(f_, (ast.FunctionDef, ast.ClassDef)) for x in ast.walk(f_)))
            if ok_ and uses_ and module_uses == 1:
                late[name] = val
        if late:
            for fn in fns_:
                cp_ = _ConstProp({k: v for k, v in late.items() if k not in _bound_in(fn.node)})
                fn.node = cp_.visit(fn.node)
                if cp_.hits:
                    fn.node.body, k_d = _dispatch_to_chain(fn.node.body, fn.node)
                    ast.fix_missing_locations(fn.node)
                    report["propagated_constants"].append(f"{fn.where}: {cp_.hits} (lookup table read in place)")  # type: ignore[union-attr]
                    if k_d:
                        report.setdefault("dispatch_table_to_chain", []).append(f"{fn.where}: {k_d}")  # type: ignore[union-attr]
    # ---- which known functions now use syntax the confirmed function did not (comprehensions, walrus, match, conditional expressions,
    # generator helpers such as next / any / zip ...): the rules' extractors were written against the confirmed idioms, so a pattern they do
    # not find in such a function is "not decided", not "absent" (report.Ctx.check)
    novel: dict[str, set[str]] = {}
    for mi in repo.modules.values():
        known = census.get(mi.name)
        if known is None:
            continue
        for fn in list(mi.functions.values()) + [m for c in mi.classes.values() for m in c.methods.values()]:
            src = known.get("source", {}).get(fn.qualname)
            if src is None:
                continue
            try:
                ref_kinds = _syntax_kinds(ast.parse(src).body[0])
            except SyntaxError:
                continue
            extra = _syntax_kinds(fn.node) - ref_kinds
            if extra:
                novel[fn.qualname] = extra
    repo.novel_syntax = novel  # type: ignore[attr-defined]
    # ---- how much of each known function is still the confirmed function: the share of its simple statements and tests (texts, after the
    # respelling above) that the confirmed version also has
    sim: dict[str, float] = {}
    dist: dict[str, int] = {}
    for mi in repo.modules.values():
        known = census.get(mi.name)
        if known is None:
            continue
        for fn in list(mi.functions.values()) + [m for c in mi.classes.values() for m in c.methods.values()]:
            src = known.get("source", {}).get(fn.qualname)
            if src is None:
                continue
            ref_p = _pieces(ast.parse(src).body[0])
            cur_p = _pieces(fn.node)
            if ref_p and cur_p and cur_p != ref_p:
                common = sum(min(cur_p.count(x), ref_p.count(x)) for x in set(cur_p))
                sim[fn.qualname] = common / max(len(cur_p), len(ref_p))
                dist[fn.qualname] = len(cur_p) + len(ref_p) - 2 * common
    repo.rewrite_similarity = sim  # type: ignore[attr-defined]
    repo.rewrite_distance = dist  # type: ignore[attr-defined]
    if novel:
        report["novel_syntax"] = [f"{k}: {', '.join(sorted(v))}" for k, v in sorted(novel.items())]
    # ---- inside an arm guarded by `X == <literal>` the expression X is that literal (after helpers have been folded in: an arm that forwards
    # the tested value to a helper, `DataNode(keyword.value, ...)` under `keyword.value == "dw"`, reads `DataNode("dw", ...)`)
    for mi in repo.modules.values():
        if census.get(mi.name) is None:
            continue
        for fn in list(mi.functions.values()) + [m for c in mi.classes.values() for m in c.methods.values()]:
            k_ = _specialise_equalities(fn.node)
            if k_:
                report.setdefault("specialised_under_equality", []).append(f"{fn.where}: {k_}")  # type: ignore[union-attr]
    return report
